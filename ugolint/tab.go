package main

// Engine A: table extraction by tag-level partial evaluation of methods written
// as type switches / token switches over the typed AST.  Given an assumption
// "the dynamic type of parameter `right` is R and parameter `tok` is K", every
// type switch, comma-ok assertion, `switch tok`, `tok == K`, `right ==
// Undefined` test that the assumption decides is resolved; every other branch
// is explored on both sides with the condition recorded as a guard; and each
// path ends in a cell: returned expressions, an error, a delegation to the same
// method of another receiver, or undecided (a shape the evaluator does not
// model - undecided cells fail the check).

import (
	"fmt"
	"go/ast"
	"go/constant"
	"go/token"
	"go/types"
	"strings"

	"golang.org/x/tools/go/packages"
)

type tabGuard struct {
	Expr  ast.Expr
	Truth bool
	Note  string
}

type tabState struct {
	rightT     types.Type // assumed dynamic type of right (nil = unknown)
	rightNote  string     // non-empty when right was re-assigned on this path
	tok        *int64
	role       map[types.Object]string // object -> "L" | "R" | "L~" (derived from L) | "R~"
	bools      map[types.Object]int    // known boolean locals: 1 true, 0 false
	guards     []tabGuard
	rightExprs []ast.Expr // expressions assigned to right on this path
}

func (s *tabState) clone() *tabState {
	n := &tabState{rightT: s.rightT, rightNote: s.rightNote, tok: s.tok,
		role: map[types.Object]string{}, bools: map[types.Object]int{}}
	for k, v := range s.role {
		n.role[k] = v
	}
	for k, v := range s.bools {
		n.bools[k] = v
	}
	n.guards = append([]tabGuard{}, s.guards...)
	n.rightExprs = append([]ast.Expr{}, s.rightExprs...)
	return n
}

type tabCell struct {
	Kind    string // "ret" | "err" | "delegate" | "dyn" | "undecided"
	Truth   int    // for boolean results: 1 / 0 when the assumptions decide it, else -1
	Results []ast.Expr
	St      *tabState
	// delegation
	Swapped  bool // the delegation passes the right operand as receiver and the receiver as argument
	RecvExpr ast.Expr
	RecvT    types.Type
	RightT   types.Type
	Why      string
	Pos      token.Pos
	Fn       *ast.FuncDecl
	Pkg      *packages.Package
}

type tabEval struct {
	l      *Loaded
	pkg    *packages.Package
	info   *types.Info
	fd     *ast.FuncDecl
	method string
	recv   types.Object
	right  types.Object
	tok    types.Object
	out    []tabCell
	steps  int
	labels map[string]labelLoc
	undef  types.Object // the package-level Undefined variable
	// helper inlining: parameters of inlined helpers that carry the token
	tokAlias map[types.Object]bool
	inlining int
}

func (e *tabEval) isTok(o types.Object) bool {
	return o != nil && (o == e.tok || e.tokAlias[o])
}

// helperOf: the call is a call of a function or method of the same package
// (not the method being tabulated) whose body is available: a helper the
// method was split into.  Returns its declaration and the receiver expression.
func (e *tabEval) helperOf(call *ast.CallExpr) (*ast.FuncDecl, ast.Expr) {
	var fo *types.Func
	var recv ast.Expr
	switch f := ast.Unparen(call.Fun).(type) {
	case *ast.Ident:
		fo, _ = e.info.Uses[f].(*types.Func)
	case *ast.SelectorExpr:
		if s := e.info.Selections[f]; s != nil && s.Kind() == types.MethodVal {
			fo, _ = s.Obj().(*types.Func)
			recv = f.X
		}
	}
	if fo == nil || fo.Pkg() != e.pkg.Types || fo.Name() == e.method {
		return nil, nil
	}
	if call.Ellipsis.IsValid() {
		return nil, nil
	}
	fd := e.l.Decl(fo)
	if fd == nil || fd.Body == nil {
		return nil, nil
	}
	// a helper in the sense used here has the tabulated method's result shape
	if fd.Type.Results == nil || e.fd.Type.Results == nil || fd.Type.Results.NumFields() != e.fd.Type.Results.NumFields() {
		return nil, nil
	}
	return fd, recv
}

// inlineHelper evaluates the body of helper fd in place of `return helper(args)`:
// parameters take the roles of the arguments (receiver / right operand / token).
func (e *tabEval) inlineHelper(fd *ast.FuncDecl, recv ast.Expr, call *ast.CallExpr, st *tabState) bool {
	var params []types.Object
	for _, p := range fd.Type.Params.List {
		if len(p.Names) == 0 {
			return false
		}
		for _, n := range p.Names {
			params = append(params, e.info.Defs[n])
		}
	}
	if len(params) != len(call.Args) {
		return false
	}
	st2 := st.clone()
	bind := func(po types.Object, a ast.Expr) bool {
		if po == nil {
			return true
		}
		if o := e.objOf(a); o != nil && e.isTok(o) {
			if e.tokAlias == nil {
				e.tokAlias = map[types.Object]bool{}
			}
			e.tokAlias[po] = true
			return true
		}
		if o := e.objOf(a); o != nil {
			switch {
			case o == e.recv:
				st2.role[po] = "L"
				return true
			case o == e.right:
				st2.role[po] = "R"
				return true
			case st.role[o] != "":
				st2.role[po] = st.role[o]
				return true
			}
		}
		switch e.derivedRole(a, st) {
		case "L~":
			st2.role[po] = "L~"
		case "R~":
			st2.role[po] = "R~"
		case "K~":
		default:
			return false
		}
		return true
	}
	if recv != nil && fd.Recv != nil && len(fd.Recv.List) > 0 && len(fd.Recv.List[0].Names) > 0 {
		if !bind(e.info.Defs[fd.Recv.List[0].Names[0]], recv) {
			return false
		}
	}
	for i, a := range call.Args {
		if !bind(params[i], a) {
			return false
		}
	}
	savedFd, savedLabels := e.fd, e.labels
	e.fd, e.labels = fd, map[string]labelLoc{}
	for i, s := range fd.Body.List {
		if ls, ok := s.(*ast.LabeledStmt); ok {
			e.labels[ls.Label.Name] = labelLoc{list: fd.Body.List, idx: i}
		}
	}
	e.inlining++
	e.evalSeq(fd.Body.List, st2, func(s3 *tabState) {
		e.und(fd.Body.Rbrace, s3, "control reaches the end of the helper")
	})
	e.inlining--
	e.fd, e.labels = savedFd, savedLabels
	return true
}

type labelLoc struct {
	list []ast.Stmt
	idx  int
}

func (e *tabEval) und(pos token.Pos, st *tabState, why string) {
	e.out = append(e.out, tabCell{Kind: "undecided", Why: why, Pos: pos, St: st, Fn: e.fd, Pkg: e.pkg})
}

func (e *tabEval) objOf(x ast.Expr) types.Object {
	x = ast.Unparen(x)
	if id, ok := x.(*ast.Ident); ok {
		if o := e.info.Uses[id]; o != nil {
			return o
		}
		return e.info.Defs[id]
	}
	return nil
}

func (e *tabEval) isRight(x ast.Expr) bool {
	o := e.objOf(x)
	return o != nil && o == e.right
}

func (e *tabEval) constInt(x ast.Expr) (int64, bool) {
	tv, ok := e.info.Types[x]
	if !ok || tv.Value == nil || tv.Value.Kind() != constant.Int {
		return 0, false
	}
	return constant.Int64Val(tv.Value)
}

func (e *tabEval) assertMatches(t types.Type, st *tabState) int {
	if st.rightT == nil || t == nil {
		return -1
	}
	if it, isIface := t.Underlying().(*types.Interface); isIface {
		if types.Implements(st.rightT, it) {
			return 1
		}
		return 0
	}
	if types.Identical(t, st.rightT) {
		return 1
	}
	return 0
}

// evalCond: 1 true, 0 false, -1 unknown.
func (e *tabEval) evalCond(c ast.Expr, st *tabState) int {
	c = ast.Unparen(c)
	switch v := c.(type) {
	case *ast.Ident:
		if o := e.objOf(v); o != nil {
			if b, ok := st.bools[o]; ok {
				return b
			}
		}
		if tv, ok := e.info.Types[c]; ok && tv.Value != nil && tv.Value.Kind() == constant.Bool {
			if constant.BoolVal(tv.Value) {
				return 1
			}
			return 0
		}
	case *ast.UnaryExpr:
		if v.Op == token.NOT {
			r := e.evalCond(v.X, st)
			if r >= 0 {
				return 1 - r
			}
		}
	case *ast.BinaryExpr:
		switch v.Op {
		case token.EQL, token.NEQ:
			res := -1
			if st.tok != nil {
				if o := e.objOf(v.X); o != nil && e.isTok(o) {
					if k, ok := e.constInt(v.Y); ok {
						res = b2i(k == *st.tok)
					}
				} else if o := e.objOf(v.Y); o != nil && e.isTok(o) {
					if k, ok := e.constInt(v.X); ok {
						res = b2i(k == *st.tok)
					}
				}
			}
			// right == Undefined (the singleton of *UndefinedType)
			if st.rightT != nil && st.rightNote == "" {
				var other ast.Expr
				if e.isRight(v.X) {
					other = v.Y
				} else if e.isRight(v.Y) {
					other = v.X
				}
				if other != nil {
					if o := e.objOf(other); o != nil && e.undef != nil && o == e.undef {
						res = b2i(isNamed(st.rightT, modPath, "UndefinedType"))
					}
				}
			}
			// identity of the receiver with the right operand: impossible when
			// their dynamic types differ
			if st.rightT != nil && st.rightNote == "" && e.recv != nil {
				lo, ro := e.objOf(v.X), e.objOf(v.Y)
				if (lo == e.recv && e.isRight(v.Y)) || (ro == e.recv && e.isRight(v.X)) {
					if !types.Identical(e.recv.Type(), st.rightT) {
						res = 0
					}
				}
			}
			if res >= 0 && v.Op == token.NEQ {
				res = 1 - res
			}
			return res
		case token.LAND:
			a, b := e.evalCond(v.X, st), e.evalCond(v.Y, st)
			if a == 0 || b == 0 {
				return 0
			}
			if a == 1 && b == 1 {
				return 1
			}
		case token.LOR:
			a, b := e.evalCond(v.X, st), e.evalCond(v.Y, st)
			if a == 1 || b == 1 {
				return 1
			}
			if a == 0 && b == 0 {
				return 0
			}
		}
	}
	return -1
}

func b2i(b bool) int {
	if b {
		return 1
	}
	return 0
}

func (e *tabEval) evalSeq(stmts []ast.Stmt, st *tabState, cont func(*tabState)) {
	if len(stmts) == 0 {
		cont(st)
		return
	}
	e.evalStmt(stmts[0], st, func(s2 *tabState) { e.evalSeq(stmts[1:], s2, cont) })
}

func (e *tabEval) evalStmt(s ast.Stmt, st *tabState, cont func(*tabState)) {
	e.steps++
	if e.steps > 20000 {
		e.und(s.Pos(), st, "step limit")
		return
	}
	switch v := s.(type) {
	case *ast.ReturnStmt:
		e.retCell(v, st)
	case *ast.BlockStmt:
		e.evalSeq(v.List, st, cont)
	case *ast.LabeledStmt:
		e.evalStmt(v.Stmt, st, cont)
	case *ast.TypeSwitchStmt:
		var x ast.Expr
		switch a := v.Assign.(type) {
		case *ast.AssignStmt:
			x = a.Rhs[0].(*ast.TypeAssertExpr).X
		case *ast.ExprStmt:
			x = a.X.(*ast.TypeAssertExpr).X
		}
		if !e.isRight(x) {
			e.und(v.Pos(), st, "type switch on a value other than the right operand")
			return
		}
		if st.rightT == nil {
			e.und(v.Pos(), st, "type switch with unknown operand type")
			return
		}
		var def *ast.CaseClause
		for _, cc := range v.Body.List {
			cl := cc.(*ast.CaseClause)
			if cl.List == nil {
				def = cl
				continue
			}
			for _, t := range cl.List {
				if e.assertMatches(e.info.TypeOf(t), st) == 1 {
					ns := st.clone()
					if o := e.info.Implicits[cl]; o != nil {
						ns.role[o] = "R"
					}
					e.evalSeq(cl.Body, ns, cont)
					return
				}
			}
		}
		if def != nil {
			ns := st.clone()
			if o := e.info.Implicits[def]; o != nil {
				ns.role[o] = "R"
			}
			e.evalSeq(def.Body, ns, cont)
			return
		}
		cont(st)
	case *ast.SwitchStmt:
		if v.Init != nil {
			e.und(v.Pos(), st, "switch with init statement")
			return
		}
		if v.Tag != nil {
			if o := e.objOf(v.Tag); o != nil && e.isTok(o) && st.tok != nil {
				var def *ast.CaseClause
				for _, cc := range v.Body.List {
					cl := cc.(*ast.CaseClause)
					if cl.List == nil {
						def = cl
						continue
					}
					for _, x := range cl.List {
						if k, ok := e.constInt(x); ok && k == *st.tok {
							e.evalSeq(cl.Body, st, cont)
							return
						}
					}
				}
				if def != nil {
					e.evalSeq(def.Body, st, cont)
					return
				}
				cont(st)
				return
			}
		}
		// unknown tag or tagless: explore every clause and the no-match path
		hasDef := false
		for _, cc := range v.Body.List {
			cl := cc.(*ast.CaseClause)
			ns := st.clone()
			if cl.List == nil {
				hasDef = true
				ns.guards = append(ns.guards, tabGuard{Note: "default arm"})
			} else {
				decided := -1
				if v.Tag == nil && len(cl.List) == 1 {
					decided = e.evalCond(cl.List[0], st)
				}
				if decided == 0 {
					continue
				}
				ns.guards = append(ns.guards, tabGuard{Expr: cl.List[0], Truth: true, Note: "switch arm"})
			}
			e.evalSeq(cl.Body, ns, cont)
		}
		if !hasDef {
			cont(st)
		}
	case *ast.IfStmt:
		ns := st.clone()
		res := -1
		if v.Init != nil {
			if !e.applySimple(v.Init, ns) {
				e.und(v.Pos(), st, "if with unsupported init statement")
				return
			}
		}
		res = e.evalCond(v.Cond, ns)
		switch res {
		case 1:
			e.evalSeq(v.Body.List, ns, cont)
		case 0:
			if v.Else != nil {
				e.evalStmt(v.Else, ns, cont)
			} else {
				cont(ns)
			}
		default:
			t := ns.clone()
			t.guards = append(t.guards, tabGuard{Expr: v.Cond, Truth: true})
			e.evalSeq(v.Body.List, t, cont)
			f := ns.clone()
			f.guards = append(f.guards, tabGuard{Expr: v.Cond, Truth: false})
			if v.Else != nil {
				e.evalStmt(v.Else, f, cont)
			} else {
				cont(f)
			}
		}
	case *ast.AssignStmt:
		ns := st.clone()
		if !e.applySimple(v, ns) {
			e.und(v.Pos(), st, "unsupported assignment")
			return
		}
		cont(ns)
	case *ast.BranchStmt:
		switch v.Tok {
		case token.GOTO:
			loc, ok := e.labels[v.Label.Name]
			if !ok {
				e.und(v.Pos(), st, "goto unknown label")
				return
			}
			// continue at the labeled statement, then with what follows it in
			// its enclosing list, then with what follows that list ... the
			// repository only labels top-level statements of the method body.
			e.evalSeq(loc.list[loc.idx:], st, func(s2 *tabState) {
				e.und(v.Pos(), s2, "fell off the end of the function after goto")
			})
		case token.BREAK, token.CONTINUE:
			// leaves a loop body: no result on this path
		default:
			e.und(v.Pos(), st, "unsupported branch statement "+v.Tok.String())
		}
	case *ast.DeclStmt:
		cont(st)
	case *ast.ExprStmt, *ast.IncDecStmt, *ast.DeferStmt, *ast.EmptyStmt:
		cont(st)
	case *ast.RangeStmt:
		ns := st.clone()
		ns.guards = append(ns.guards, tabGuard{Note: "loop"})
		e.evalSeq(v.Body.List, ns, func(*tabState) {})
		cont(st)
	case *ast.ForStmt:
		ns := st.clone()
		ns.guards = append(ns.guards, tabGuard{Note: "loop"})
		e.evalSeq(v.Body.List, ns, func(*tabState) {})
		cont(st)
	default:
		e.und(s.Pos(), st, fmt.Sprintf("unsupported statement %T", s))
	}
}

// applySimple interprets an assignment / short declaration for its effect on
// the tag-level state.  Returns false for a shape it cannot account for.
func (e *tabEval) applySimple(s ast.Stmt, st *tabState) bool {
	as, ok := s.(*ast.AssignStmt)
	if !ok {
		return false
	}
	// v, ok := right.(T)
	if len(as.Lhs) == 2 && len(as.Rhs) == 1 {
		if ta, ok := ast.Unparen(as.Rhs[0]).(*ast.TypeAssertExpr); ok && e.isRight(ta.X) && ta.Type != nil {
			m := e.assertMatches(e.info.TypeOf(ta.Type), st)
			if o := e.objOf(as.Lhs[0]); o != nil {
				st.role[o] = "R"
			}
			if o := e.objOf(as.Lhs[1]); o != nil && m >= 0 {
				st.bools[o] = m
			}
			return true
		}
		// right, ok := v[k] and similar: locals only
		for _, l := range as.Lhs {
			if e.isRight(l) && as.Tok == token.ASSIGN {
				return false
			}
		}
		return true
	}
	if len(as.Lhs) != len(as.Rhs) {
		return false
	}
	for i, l := range as.Lhs {
		if e.isRight(l) && as.Tok == token.ASSIGN {
			st.rightT = e.info.TypeOf(as.Rhs[i])
			st.rightNote = "right re-assigned"
			st.rightExprs = append(st.rightExprs, as.Rhs[i])
			continue
		}
		if o := e.objOf(l); o != nil {
			if o == e.recv || e.isTok(o) {
				return false
			}
			// classify the local by what its initialiser mentions
			if _, had := st.role[o]; !had || as.Tok == token.DEFINE {
				st.role[o] = e.derivedRole(as.Rhs[i], st)
			}
		}
	}
	return true
}

func (e *tabEval) derivedRole(x ast.Expr, st *tabState) string {
	l, r := false, false
	ast.Inspect(x, func(n ast.Node) bool {
		if id, ok := n.(*ast.Ident); ok {
			if o := e.info.Uses[id]; o != nil {
				switch {
				case o == e.recv || st.role[o] == "L" || st.role[o] == "L~":
					l = true
				case o == e.right || st.role[o] == "R" || st.role[o] == "R~":
					r = true
				}
			}
		}
		return true
	})
	switch {
	case l && !r:
		return "L~"
	case r && !l:
		return "R~"
	case l && r:
		return "LR~"
	}
	return "K~" // constant
}

func (e *tabEval) retCell(r *ast.ReturnStmt, st *tabState) {
	c := tabCell{St: st, Pos: r.Pos(), Fn: e.fd, Pkg: e.pkg}
	if len(r.Results) == 0 {
		c.Kind, c.Why = "undecided", "naked return"
		e.out = append(e.out, c)
		return
	}
	c.Results = r.Results
	first := ast.Unparen(r.Results[0])
	// `return helper(...)`: a helper the method was split into is evaluated in place
	if call, ok := first.(*ast.CallExpr); ok && len(r.Results) == 1 && e.inlining < 3 {
		if hfd, hrecv := e.helperOf(call); hfd != nil {
			if e.inlineHelper(hfd, hrecv, call, st) {
				return
			}
		}
	}
	if call, ok := first.(*ast.CallExpr); ok {
		if sel, ok := call.Fun.(*ast.SelectorExpr); ok && sel.Sel.Name == e.method {
			if s := e.info.Selections[sel]; s != nil && s.Kind() == types.MethodVal && len(call.Args) >= 1 {
				c.RecvExpr = sel.X
				c.RecvT = e.info.TypeOf(sel.X)
				ra := call.Args[len(call.Args)-1]
				if e.isRight(ra) {
					c.RightT = st.rightT
				} else if o := e.objOf(ra); o != nil && st.role[o] == "R" {
					c.RightT = st.rightT
				} else {
					c.RightT = e.info.TypeOf(ra)
				}
				rr, ar := e.derivedRole(sel.X, st), e.derivedRole(ra, st)
				if (rr == "R~" || rr == "R") && (ar == "L~" || ar == "L") {
					c.Swapped = true
				}
				if _, isIface := c.RecvT.Underlying().(*types.Interface); isIface {
					c.Kind = "dyn"
				} else {
					c.Kind = "delegate"
				}
				e.out = append(e.out, c)
				return
			}
		}
	}
	if len(r.Results) == 2 {
		if tv, ok := e.info.Types[r.Results[1]]; !ok || !tv.IsNil() {
			c.Kind = "err"
			e.out = append(e.out, c)
			return
		}
	}
	c.Kind = "ret"
	c.Truth = -1
	if tv, ok := e.info.Types[first]; ok {
		if b, ok := tv.Type.Underlying().(*types.Basic); ok && b.Info()&types.IsBoolean != 0 {
			c.Truth = e.evalCond(first, st)
		}
	}
	e.out = append(e.out, c)
}

// ---- driver --------------------------------------------------------------------

type tabber struct {
	l     *Loaded
	cache map[string][]tabCell
}

func newTabber(l *Loaded) *tabber { return &tabber{l: l, cache: map[string][]tabCell{}} }

// methodDecl finds the declaration of method name in the method set of T.
func (t *tabber) methodDecl(T types.Type, name string) (*ast.FuncDecl, *packages.Package) {
	obj, _, _ := types.LookupFieldOrMethod(T, true, nil, name)
	if obj == nil {
		// unexported lookups need a package; exported names do not
		return nil, nil
	}
	fn, ok := obj.(*types.Func)
	if !ok || fn.Pkg() == nil {
		return nil, nil
	}
	return t.l.Decl(fn), t.l.ByPath[fn.Pkg().Path()]
}

// cells evaluates method (Equal: one parameter; BinaryOp: tok, right) of
// receiver type T under the assumption right:R, tok=K.
func (t *tabber) cells(method string, T, R types.Type, tok *int64) []tabCell {
	key := method + "|" + tstr(T) + "|" + tstr(R)
	if tok != nil {
		key += fmt.Sprintf("|%d", *tok)
	}
	if c, ok := t.cache[key]; ok {
		return c
	}
	fd, pkg := t.methodDecl(T, method)
	if fd == nil || fd.Body == nil || pkg == nil {
		c := []tabCell{{Kind: "undecided", Why: "no declaration of " + method + " for " + tstr(T)}}
		t.cache[key] = c
		return c
	}
	e := &tabEval{l: t.l, pkg: pkg, info: pkg.TypesInfo, fd: fd, method: method, labels: map[string]labelLoc{}}
	if up := t.l.ByPath[modPath]; up != nil {
		e.undef = up.Types.Scope().Lookup("Undefined")
	}
	if fd.Recv != nil && len(fd.Recv.List) > 0 && len(fd.Recv.List[0].Names) > 0 {
		e.recv = pkg.TypesInfo.Defs[fd.Recv.List[0].Names[0]]
	}
	var params []types.Object
	for _, p := range fd.Type.Params.List {
		if len(p.Names) == 0 {
			params = append(params, nil)
		}
		for _, n := range p.Names {
			params = append(params, pkg.TypesInfo.Defs[n])
		}
	}
	switch {
	case len(params) == 1:
		e.right = params[0]
	case len(params) == 2:
		e.tok, e.right = params[0], params[1]
	default:
		c := []tabCell{{Kind: "undecided", Why: "unexpected parameter list of " + method}}
		t.cache[key] = c
		return c
	}
	for i, s := range fd.Body.List {
		if ls, ok := s.(*ast.LabeledStmt); ok {
			e.labels[ls.Label.Name] = labelLoc{list: fd.Body.List, idx: i}
		}
	}
	st := &tabState{rightT: R, tok: tok, role: map[types.Object]string{}, bools: map[types.Object]int{}}
	if e.recv != nil {
		st.role[e.recv] = "L"
	}
	if e.right != nil {
		st.role[e.right] = "R"
	}
	e.evalSeq(fd.Body.List, st, func(s2 *tabState) {
		e.und(fd.Body.Rbrace, s2, "control reaches the end of the function")
	})
	t.cache[key] = e.out
	return e.out
}

// resolve follows delegations to the same method of another receiver until
// only leaf cells remain.  chain records the receiver expressions followed.
type leafCell struct {
	tabCell
	Chain   []string // e.g. ["Uint(L)"]: conversions / field selections applied to the left operand
	Depth   int
	Flipped bool // an odd number of operand-swapping delegations led here: the cell's L is the original right operand
}

func (t *tabber) resolve(method string, T, R types.Type, tok *int64) []leafCell {
	var out []leafCell
	var rec func(T, R types.Type, chain []string, depth int, flipped bool)
	rec = func(T, R types.Type, chain []string, depth int, flipped bool) {
		for _, c := range t.cells(method, T, R, tok) {
			if c.Kind == "delegate" {
				if depth >= 6 {
					c.Kind, c.Why = "undecided", "delegation chain longer than 6"
					out = append(out, leafCell{c, chain, depth, flipped})
					continue
				}
				step := exprShape(c.Pkg.TypesInfo, c.RecvExpr, c.St)
				rec(c.RecvT, c.RightT, append(append([]string{}, chain...), step), depth+1, flipped != c.Swapped)
				continue
			}
			out = append(out, leafCell{c, chain, depth, flipped})
		}
	}
	rec(T, R, nil, 0, false)
	return out
}

// exprShape prints an expression with the receiver written L, values bound to
// the right operand written R, and other locals by their role.  Constants are
// printed by value.  It is used to compare sibling cells structurally.
func exprShape(info *types.Info, x ast.Expr, st *tabState) string {
	var sb strings.Builder
	var w func(x ast.Expr)
	w = func(x ast.Expr) {
		if tv, ok := info.Types[x]; ok && tv.Value != nil {
			sb.WriteString(tv.Value.ExactString())
			return
		}
		switch v := x.(type) {
		case *ast.Ident:
			if o := info.Uses[v]; o != nil && st != nil {
				if r, ok := st.role[o]; ok {
					sb.WriteString(r)
					return
				}
			}
			if o := info.Uses[v]; o != nil {
				if _, isType := o.(*types.TypeName); isType {
					sb.WriteString(tstr(o.Type()))
					return
				}
			}
			sb.WriteString(v.Name)
		case *ast.BinaryExpr:
			sb.WriteString("(")
			w(v.X)
			sb.WriteString(" " + v.Op.String() + " ")
			w(v.Y)
			sb.WriteString(")")
		case *ast.UnaryExpr:
			sb.WriteString(v.Op.String())
			w(v.X)
		case *ast.CallExpr:
			w(v.Fun)
			sb.WriteString("(")
			for i, a := range v.Args {
				if i > 0 {
					sb.WriteString(",")
				}
				w(a)
			}
			if v.Ellipsis.IsValid() {
				sb.WriteString("...")
			}
			sb.WriteString(")")
		case *ast.SelectorExpr:
			w(v.X)
			sb.WriteString("." + v.Sel.Name)
		case *ast.ParenExpr:
			w(v.X)
		case *ast.StarExpr:
			sb.WriteString("*")
			w(v.X)
		case *ast.IndexExpr:
			w(v.X)
			sb.WriteString("[")
			w(v.Index)
			sb.WriteString("]")
		case *ast.ArrayType, *ast.MapType:
			sb.WriteString(tstr(info.TypeOf(x)))
		default:
			sb.WriteString(fmt.Sprintf("<%T>", x))
		}
	}
	w(x)
	return sb.String()
}

// objectTypes lists the concrete named types of package pkgPath (value or
// pointer form, whichever has the method set) that implement ugo.Object.
func objectTypes(l *Loaded, pkgPath string) []types.Type {
	up := l.ByPath[modPath]
	p := l.ByPath[pkgPath]
	if up == nil || p == nil {
		return nil
	}
	oo := up.Types.Scope().Lookup("Object")
	if oo == nil {
		return nil
	}
	iface, ok := oo.Type().Underlying().(*types.Interface)
	if !ok {
		return nil
	}
	var out []types.Type
	for _, n := range p.Types.Scope().Names() {
		tn, ok := p.Types.Scope().Lookup(n).(*types.TypeName)
		if !ok || tn.IsAlias() {
			continue
		}
		t := tn.Type()
		if _, isI := t.Underlying().(*types.Interface); isI {
			continue
		}
		if types.Implements(t, iface) {
			out = append(out, t)
		} else if types.Implements(types.NewPointer(t), iface) {
			out = append(out, types.NewPointer(t))
		}
	}
	return out
}

// tokenConsts returns name -> value for the constants of type token.Token.
func tokenConsts(l *Loaded) map[string]int64 {
	out := map[string]int64{}
	p := l.ByPath[modPath+"/token"]
	if p == nil {
		return out
	}
	for _, n := range p.Types.Scope().Names() {
		if c, ok := p.Types.Scope().Lookup(n).(*types.Const); ok && isNamed(c.Type(), modPath+"/token", "Token") {
			if v, ok := constant.Int64Val(c.Val()); ok {
				out[n] = v
			}
		}
	}
	return out
}
