package main

import (
	"fmt"
	"go/ast"
	"go/token"
	"go/types"
	"strings"

	"golang.org/x/tools/go/packages"
	"golang.org/x/tools/go/ssa"
)

func init() {
	props["C20"] = propC20
}

// convArm is one clause of a conversion type switch.
type convArm struct {
	caseTypes  []types.Type // nil entry = `case nil`
	isDefault  bool
	results    []ast.Expr // expressions assigned to the result variable / returned as first result
	clause     *ast.CaseClause
	makes      map[types.Object]*ast.CallExpr // locals defined by make(...)
	recurses   bool                           // calls the enclosing function on a range value
	rangesV    bool                           // ranges over the switch variable
	makeLenV   bool                           // make(C, len(v))
	nilTest    bool                           // compares the switch variable with nil
	setsErr    bool                           // assigns / returns a non-nil error
	freshCalls map[ast.Expr]bool              // calls of helpers that return a container they made
}

type convFunc struct {
	name string
	fd   *ast.FuncDecl
	pkg  *packages.Package
	arms []*convArm
	ret  types.Object
	err  types.Object
}

func parseConvFunc(l *Loaded, name string) *convFunc {
	p := l.ByPath[modPath]
	if p == nil {
		return nil
	}
	fo, _ := p.Types.Scope().Lookup(name).(*types.Func)
	fd := l.Decl(fo)
	if fd == nil || fd.Body == nil {
		return nil
	}
	info := p.TypesInfo
	cf := &convFunc{name: name, fd: fd, pkg: p}
	if fd.Type.Results != nil {
		for i, f := range fd.Type.Results.List {
			for _, n := range f.Names {
				if i == 0 && cf.ret == nil {
					cf.ret = info.Defs[n]
				} else if cf.err == nil {
					cf.err = info.Defs[n]
				}
			}
		}
	}
	var ts *ast.TypeSwitchStmt
	for _, s := range fd.Body.List {
		if x, ok := s.(*ast.TypeSwitchStmt); ok {
			ts = x
		}
	}
	if ts == nil {
		return nil
	}
	for _, cc := range ts.Body.List {
		cl := cc.(*ast.CaseClause)
		arm := &convArm{clause: cl, makes: map[types.Object]*ast.CallExpr{}}
		if cl.List == nil {
			arm.isDefault = true
		}
		for _, t := range cl.List {
			if tv, ok := info.Types[t]; ok && tv.IsNil() {
				arm.caseTypes = append(arm.caseTypes, nil)
			} else {
				arm.caseTypes = append(arm.caseTypes, info.TypeOf(t))
			}
		}
		sv := info.Implicits[cl] // the switch variable in this clause
		cf.scanArm(arm, cl, sv, cf.ret, fo, l, 0)
		cf.arms = append(cf.arms, arm)
	}
	return cf
}

// scanArm collects the facts of one arm from node (the case clause, or the
// body of a helper the arm delegates to): sv is the operand variable, ret the
// named result variable (nil in a helper, whose results are its return
// statements).
func (cf *convFunc) scanArm(arm *convArm, node ast.Node, sv, ret types.Object, fo *types.Func, l *Loaded, depth int) {
	info := cf.pkg.TypesInfo
	ast.Inspect(node, func(n ast.Node) bool {
		switch x := n.(type) {
		case *ast.AssignStmt:
			for i, lh := range x.Lhs {
				id, ok := lh.(*ast.Ident)
				if !ok || i >= len(x.Rhs) && len(x.Rhs) != 1 {
					continue
				}
				var o types.Object
				if x.Tok == token.DEFINE {
					o = info.Defs[id]
				} else {
					o = info.Uses[id]
				}
				if o == nil {
					continue
				}
				if len(x.Rhs) == len(x.Lhs) {
					rh := x.Rhs[i]
					if o == ret && ret != nil {
						arm.results = append(arm.results, rh)
					}
					if o == cf.err && cf.err != nil {
						arm.setsErr = true
					}
					if call, ok := ast.Unparen(rh).(*ast.CallExpr); ok {
						if fid, ok := call.Fun.(*ast.Ident); ok && info.Uses[fid] == types.Universe.Lookup("make") {
							arm.makes[o] = call
							if len(call.Args) >= 2 {
								if lc, ok := ast.Unparen(call.Args[1]).(*ast.CallExpr); ok && len(lc.Args) == 1 {
									if lf, ok := lc.Fun.(*ast.Ident); ok && info.Uses[lf] == types.Universe.Lookup("len") {
										if aid, ok := ast.Unparen(lc.Args[0]).(*ast.Ident); ok && info.Uses[aid] == sv {
											arm.makeLenV = true
										}
									}
								}
							}
						}
					}
				}
			}
		case *ast.ReturnStmt:
			if len(x.Results) == 1 {
				if tv, ok := info.Types[x.Results[0]]; ok {
					if _, isTuple := tv.Type.(*types.Tuple); isTuple {
						// `return helper(v)` forwarding both results: the values are the
						// helper's (added by delegate), the error is forwarded
						arm.setsErr = true
						break
					}
				}
			}
			if len(x.Results) >= 1 {
				// `return nil, err` of a two-result function is the error path; a
				// single-result function returning nil produces nil as its value
				if tv, ok := info.Types[x.Results[0]]; !ok || !tv.IsNil() || len(x.Results) == 1 {
					arm.results = append(arm.results, x.Results[0])
				}
				if len(x.Results) == 2 {
					if tv, ok := info.Types[x.Results[1]]; !ok || !tv.IsNil() {
						arm.setsErr = true
					}
				}
			}
		case *ast.RangeStmt:
			if id, ok := ast.Unparen(x.X).(*ast.Ident); ok && sv != nil && info.Uses[id] == sv {
				arm.rangesV = true
			}
			if se, ok := ast.Unparen(x.X).(*ast.SelectorExpr); ok {
				if id, ok := ast.Unparen(se.X).(*ast.Ident); ok && sv != nil && info.Uses[id] == sv {
					arm.rangesV = true
				}
			}
		case *ast.CallExpr:
			if fid, ok := x.Fun.(*ast.Ident); ok && info.Uses[fid] == types.Object(fo) {
				arm.recurses = true
			}
		case *ast.BinaryExpr:
			if x.Op == token.NEQ || x.Op == token.EQL {
				for _, pr := range [][2]ast.Expr{{x.X, x.Y}, {x.Y, x.X}} {
					if id, ok := ast.Unparen(pr[0]).(*ast.Ident); ok && sv != nil && info.Uses[id] == sv {
						if tv, ok := info.Types[pr[1]]; ok && tv.IsNil() {
							arm.nilTest = true
						}
					}
				}
			}
		}
		if depth == 0 {
			cf.delegate(arm, n, sv, fo, l)
		}
		return true
	})
}

// delegate: a result of the arm computed by a helper of the same package that
// receives the operand (v or v.Field) as its only argument: the helper's body
// is scanned as if it were part of the arm, with its parameter as operand;
// the call counts as a fresh container when every value the helper returns is
// a container it made itself.
func (cf *convFunc) delegate(arm *convArm, n ast.Node, sv types.Object, fo *types.Func, l *Loaded) {
	info := cf.pkg.TypesInfo
	call, ok := n.(*ast.CallExpr)
	if !ok || len(call.Args) != 1 || sv == nil {
		return
	}
	fid, ok := ast.Unparen(call.Fun).(*ast.Ident)
	if !ok {
		return
	}
	ho, ok := info.Uses[fid].(*types.Func)
	if !ok || ho == fo || ho.Pkg() != cf.pkg.Types {
		return
	}
	arg := ast.Unparen(call.Args[0])
	if se, ok := arg.(*ast.SelectorExpr); ok {
		arg = ast.Unparen(se.X)
	}
	if id, ok := arg.(*ast.Ident); !ok || info.Uses[id] != sv {
		return
	}
	hd := l.Decl(ho)
	if hd == nil || hd.Body == nil || hd.Type.Params == nil || len(hd.Type.Params.List) != 1 || len(hd.Type.Params.List[0].Names) != 1 {
		return
	}
	param := info.Defs[hd.Type.Params.List[0].Names[0]]
	sub := &convArm{makes: map[types.Object]*ast.CallExpr{}}
	cf.scanArm(sub, hd.Body, param, nil, fo, l, 1)
	arm.makeLenV = arm.makeLenV || sub.makeLenV
	arm.rangesV = arm.rangesV || sub.rangesV
	arm.recurses = arm.recurses || sub.recurses
	arm.setsErr = arm.setsErr || sub.setsErr
	if _, isTuple := info.TypeOf(call).(*types.Tuple); isTuple {
		arm.results = append(arm.results, sub.results...)
		for o, m := range sub.makes {
			arm.makes[o] = m
		}
	}
	fresh := len(sub.results) > 0
	for _, r := range sub.results {
		if id, ok := ast.Unparen(r).(*ast.Ident); ok {
			if _, isMake := sub.makes[info.Uses[id]]; isMake {
				continue
			}
		}
		if _, isLit := ast.Unparen(r).(*ast.CompositeLit); isLit {
			continue
		}
		fresh = false
	}
	if fresh {
		if arm.freshCalls == nil {
			arm.freshCalls = map[ast.Expr]bool{}
		}
		arm.freshCalls[call] = true
	}
}

// armFor returns the arm whose case list contains a type identical to t
// (t == nil: the `case nil` arm).
func (cf *convFunc) armFor(t types.Type) *convArm {
	for _, a := range cf.arms {
		for _, ct := range a.caseTypes {
			if (t == nil && ct == nil) || (t != nil && ct != nil && types.Identical(t, ct)) {
				return a
			}
		}
	}
	return nil
}

// resultType: the single static type of the values the arm produces (nil,false if they differ).
func (cf *convFunc) resultType(a *convArm) (types.Type, bool, bool) {
	info := cf.pkg.TypesInfo
	var t types.Type
	isNil := false
	for _, r := range a.results {
		tv, ok := info.Types[r]
		if !ok {
			return nil, false, false
		}
		if tv.IsNil() {
			isNil = true
			continue
		}
		rt := tv.Type
		// a package-level singleton declared with an interface type: use the
		// static type of its initialiser (Undefined Object = &UndefinedType{})
		if id, ok := ast.Unparen(r).(*ast.Ident); ok {
			if v, ok := info.Uses[id].(*types.Var); ok && v.Parent() == cf.pkg.Types.Scope() {
				if it := initType(cf.pkg, v); it != nil {
					rt = it
				}
			}
		}
		if t == nil {
			t = rt
		} else if !types.Identical(t, rt) {
			return nil, false, false
		}
	}
	if t == nil && isNil {
		return nil, true, true
	}
	return t, false, t != nil
}

func propC20(c *Ctx) {
	l := c.L
	defer func() {
		rgl := c.Rule("global-lock-callback", "no package-level mutex of the library is held across a call through a function value (registered converters may re-enter the conversion functions)", 1)
		ruleGlobalLockCallback(c, rgl)
		rle := c.Rule("loop-err-checked", "the conversion of every element of a container reports its error: the error of a call made inside a loop of the root package is tested, returned or handed on inside the loop", 4)
		ruleLoopErrChecked(c, rle, l.RepoFuncs(func(p string) bool { return p == modPath }), 4)
	}()
	ri := c.Rule("inverse", "ToInterface and ToObject are mutual inverses on the plain types: for each plain uGO type T the arm of ToInterface yields a Go type G for which ToObject has an arm yielding T again, and for each canonical Go type G the arm of ToObject yields a T whose ToInterface arm yields G", 18)
	toObj, toAlt, toIf := parseConvFunc(l, "ToObject"), parseConvFunc(l, "ToObjectAlt"), parseConvFunc(l, "ToInterface")
	if !c.Anchor(ri, "ToObject / ToObjectAlt / ToInterface with a type switch", toObj != nil && toAlt != nil && toIf != nil) {
		return
	}
	up := l.ByPath[modPath]
	plain := []string{"Int", "Uint", "Float", "Bool", "Char", "String", "Bytes", "Array", "Map"}
	var plainT []types.Type
	for _, n := range plain {
		if t := l.NamedType(modPath, n); t != nil {
			plainT = append(plainT, t)
		}
	}
	if ut := l.NamedType(modPath, "UndefinedType"); ut != nil {
		plainT = append(plainT, types.NewPointer(ut))
	}
	if !c.Anchor(ri, "the ten plain uGO types", len(plainT) == 10) {
		return
	}
	pos := func(a *convArm) string { return l.Pos(a.clause.Pos()) }
	for _, T := range plainT {
		key := "ToInterface(" + tstr(T) + ")"
		a := toIf.armFor(T)
		if a == nil {
			c.Bad(ri, key, l.Pos(toIf.fd.Pos()), "ToInterface has no arm for plain type "+tstr(T)+": the value crosses the boundary unconverted")
			continue
		}
		G, isNil, ok := toIf.resultType(a)
		if !ok {
			c.Und(ri, key, pos(a), "arm produces values of different static types: shape not modelled")
			continue
		}
		var b *convArm
		if isNil {
			b = toObj.armFor(nil)
		} else {
			b = toObj.armFor(G)
		}
		gs := "nil"
		if !isNil {
			gs = tstr(G)
		}
		if b == nil {
			c.Bad(ri, key, pos(a), "yields "+gs+" for which ToObject has no arm: the round trip fails")
			continue
		}
		T2, _, ok2 := toObj.resultType(b)
		c.Check(ri, key, pos(a), ok2 && T2 != nil && types.Identical(T2, T), "-> "+gs+" -> "+tstr(T), fmt.Sprintf("yields %s, which ToObject converts to %s, not back to %s", gs, tstr(T2), tstr(T)))
	}
	canon := []types.Type{types.Typ[types.Int64], types.Typ[types.Uint64], types.Typ[types.Float64], types.Typ[types.Bool], types.Typ[types.Int32], types.Typ[types.String],
		types.NewSlice(types.Typ[types.Uint8]), types.NewSlice(types.NewInterfaceType(nil, nil)), types.NewMap(types.Typ[types.String], types.NewInterfaceType(nil, nil)), nil}
	for _, G := range canon {
		gs := "nil"
		if G != nil {
			gs = tstr(G)
		}
		key := "ToObject(" + gs + ")"
		a := toObj.armFor(G)
		if a == nil {
			c.Bad(ri, key, l.Pos(toObj.fd.Pos()), "ToObject has no arm for canonical Go type "+gs)
			continue
		}
		T, _, ok := toObj.resultType(a)
		if !ok || T == nil {
			c.Und(ri, key, pos(a), "arm produces values of different static types: shape not modelled")
			continue
		}
		b := toIf.armFor(T)
		if b == nil {
			c.Bad(ri, key, pos(a), "yields "+tstr(T)+" for which ToInterface has no arm")
			continue
		}
		G2, isNil2, ok2 := toIf.resultType(b)
		same := ok2 && ((G == nil && isNil2) || (G != nil && G2 != nil && types.Identical(G, G2)))
		c.Check(ri, key, pos(a), same, "-> "+tstr(T)+" -> "+gs, fmt.Sprintf("yields %s, which ToInterface converts to %s, not back to %s", tstr(T), tstr(G2), gs))
	}

	// ---- widths -----------------------------------------------------------------------
	rw := c.Rule("widths", "every scalar arm of ToObject, ToObjectAlt and ToInterface converts between types such that every value of the source type is representable in the target type (range inclusion for the analysed platform): the numeric value is preserved", 25)
	pb := ptrBitsOf(l)
	for _, cf := range []*convFunc{toObj, toAlt, toIf} {
		info := cf.pkg.TypesInfo
		for _, a := range cf.arms {
			for _, r := range a.results {
				call, ok := ast.Unparen(r).(*ast.CallExpr)
				if !ok || len(call.Args) != 1 {
					continue
				}
				tv, ok := info.Types[call.Fun]
				if !ok || !tv.IsType() {
					continue
				}
				dst := tv.Type
				src := info.TypeOf(call.Args[0])
				db, ok1 := dst.Underlying().(*types.Basic)
				sb, ok2 := src.Underlying().(*types.Basic)
				if !ok1 || !ok2 || db.Info()&types.IsNumeric == 0 || sb.Info()&types.IsNumeric == 0 {
					continue
				}
				key := fmt.Sprintf("%s | %s(%s)", cf.name, tstr(dst), tstr(src))
				good := false
				switch {
				case db.Info()&types.IsInteger != 0 && sb.Info()&types.IsInteger != 0:
					dr, sr := typeRange(dst, pb), typeRange(src, pb)
					good = sr.lo >= dr.lo && sr.hi <= dr.hi
					// uint64/uint on 64-bit: hi is saturated at MaxInt64 for both; compare signedness and width
					ds, dbits, _ := isIntegerType(dst)
					ss, sbits, _ := isIntegerType(src)
					if dbits == 0 {
						dbits = pb
					}
					if sbits == 0 {
						sbits = pb
					}
					switch {
					case ds == ss:
						good = sbits <= dbits
					case ds && !ss:
						good = sbits < dbits
					default:
						good = false
					}
				case db.Info()&types.IsFloat != 0 && sb.Info()&types.IsFloat != 0:
					good = l.Pkgs[0].TypesSizes.Sizeof(src) <= l.Pkgs[0].TypesSizes.Sizeof(dst)
				}
				c.Check(rw, key, l.Pos(call.Pos()), good, "every "+tstr(src)+" is representable as "+tstr(dst), "conversion "+tstr(src)+" -> "+tstr(dst)+" does not preserve every value (narrower or differently signed target)")
			}
		}
	}

	// ---- containers ----------------------------------------------------------------------
	rc := c.Rule("containers", "every container arm ([]any, map[string]any, Array, Map) builds a NEW container of the operand's length on every path, converts each element with the same function (recursion) and never hands out a shared package-level value; nil-able pass-through arms ([]byte, []Object, map[string]Object) test nil and substitute an empty container", 10)
	isContainerCase := func(t types.Type) bool {
		if t == nil {
			return false
		}
		switch u := t.Underlying().(type) {
		case *types.Slice:
			if it, ok := u.Elem().Underlying().(*types.Interface); ok && it.NumMethods() == 0 {
				return true
			}
			return isNamed(t, modPath, "Array")
		case *types.Map:
			if it, ok := u.Elem().Underlying().(*types.Interface); ok && it.NumMethods() == 0 {
				return true
			}
			return isNamed(t, modPath, "Map")
		}
		return false
	}
	for _, cf := range []*convFunc{toObj, toAlt, toIf} {
		info := cf.pkg.TypesInfo
		for _, a := range cf.arms {
			if len(a.caseTypes) != 1 || a.caseTypes[0] == nil {
				continue
			}
			ct := a.caseTypes[0]
			key := fmt.Sprintf("%s | case %s", cf.name, tstr(ct))
			if isContainerCase(ct) {
				var probs []string
				if !a.makeLenV {
					probs = append(probs, "no make(C, len(v))")
				}
				if !a.rangesV {
					probs = append(probs, "does not range over the operand")
				}
				if !a.recurses {
					probs = append(probs, "elements are not converted with "+cf.name)
				}
				for _, r := range a.results {
					id, ok := ast.Unparen(r).(*ast.Ident)
					if ok {
						if _, isMake := a.makes[info.Uses[id]]; isMake {
							continue
						}
						if o := info.Uses[id]; o != nil && o.Parent() == up.Types.Scope() {
							probs = append(probs, "returns the package-level value "+id.Name+" (shared by every caller)")
							continue
						}
					}
					if _, isLit := ast.Unparen(r).(*ast.CompositeLit); isLit {
						continue
					}
					if a.freshCalls[ast.Unparen(r)] {
						continue
					}
					probs = append(probs, "returns a value that is not the container built in this arm")
				}
				c.Check(rc, key, pos(a), len(probs) == 0, "fresh container, element-wise recursion", strings.Join(probs, "; "))
				continue
			}
			// nil-able pass-through arms (Go -> uGO direction only)
			if cf == toIf {
				continue
			}
			switch ct.Underlying().(type) {
			case *types.Slice, *types.Map:
				hasEmpty := false
				for _, r := range a.results {
					if _, isLit := ast.Unparen(r).(*ast.CompositeLit); isLit {
						hasEmpty = true
					}
				}
				c.Check(rc, key, pos(a), a.nilTest && hasEmpty, "nil operand replaced by an empty container", "a nil "+tstr(ct)+" is not replaced by an empty container: nil and empty are not interchangeable across the boundary")
			}
		}
	}

	rrd := c.Rule("registry-dir", "each conversion function falls back to the registry table of its own direction (ToObject and ToObjectAlt: registry.ToObject; ToInterface: registry.ToInterface)", 3)
	ruleRegistryDir(c, rrd)
	rlc := c.Rule("loop-cover", "every iteration of a container arm's element loop stores the converted element or returns an error: no element is skipped", 4)
	ruleLoopCover(c, rlc)

	rcp := c.Rule("conv-passthrough", "a registered converter wraps or unwraps its payload and never computes one: no call whose result depends on the payload lies between the converter's input and its result", 6)
	ruleConvPassthrough(c, rcp)
	rcn := c.Rule("conv-nil", "every registered converter for a pointer type tests the pointer for nil before dereferencing it", 1)
	ruleConvNil(c, rcn)

	// ---- errors ----------------------------------------------------------------------------
	re := c.Rule("errors", "the default arm of ToObject and ToObjectAlt reports an error for unsupported types", 2)
	for _, cf := range []*convFunc{toObj, toAlt} {
		var def *convArm
		for _, a := range cf.arms {
			if a.isDefault {
				def = a
			}
		}
		c.Check(re, cf.name+" | default", l.Pos(cf.fd.Pos()), def != nil && def.setsErr, "default arm sets the error result", "unsupported Go types are not reported as errors")
	}

	// ---- registry -----------------------------------------------------------------------------
	rgw := c.Rule("global-write", "the conversion functions and everything they reach write no package-level variable (conversions run concurrently; an unsynchronised cache pairs one goroutine's type with another's converter)", 1)
	ruleConvGlobalWrite(c, rgw)
	rr := c.Rule("registry-key", "the converter registry is looked up by the dynamic type itself (the result of reflect.TypeOf used directly as the key of a map keyed by reflect.Type): only then is the unchecked assertion inside each registered converter safe", 2)
	for _, name := range []string{"ToObject", "ToInterface"} {
		fn := l.Func(modPath+"/registry", name)
		if !c.Anchor(rr, "registry."+name, fn != nil) {
			continue
		}
		good, n := true, 0
		// (the lookup may live in a helper shared by both directions)
		eachInstrDeep(fn, 1, func(ins ssa.Instruction) {
			if funcPkgPath(ins.Parent()) != modPath+"/registry" {
				return
			}
			lk, ok := ins.(*ssa.Lookup)
			if !ok {
				return
			}
			mt, ok := lk.X.Type().Underlying().(*types.Map)
			if !ok {
				return
			}
			n++
			if !isNamed(mt.Key(), "reflect", "Type") {
				good = false
			}
			if !isCallOf(stripChange(lk.Index), func(f *ssa.Function) bool {
				return f.Pkg != nil && f.Pkg.Pkg.Path() == "reflect" && f.Name() == "TypeOf"
			}) {
				good = false
			}
		})
		// the lookup is unconditional: no return is reachable without it (a
		// "fast path" that answers "no converter" for a class of types - values
		// that are not pointers, say - silently stops converting those types in
		// one direction while the other direction still does)
		_, always := mustPassBefore(fn.Blocks[0].Instrs[0], viaDeep(func(ins ssa.Instruction) bool {
			lk, ok := ins.(*ssa.Lookup)
			if !ok {
				return false
			}
			_, isMap := lk.X.Type().Underlying().(*types.Map)
			return isMap
		}), isReturn)
		c.Check(rr, "registry."+name+" | lookup on every path", l.Pos(fn.Pos()), always, "every return is preceded by the lookup",
			"the registry function can return without consulting the table: a class of types is never converted in this direction although a converter is registered (value-type objects come back from ToInterface unconverted)")
		c.Check(rr, "registry."+name, l.Pos(fn.Pos()), good && n > 0, "keyed by reflect.TypeOf(in)", "the registry is not looked up by the dynamic type itself (e.g. by its name): a different type with the same name is routed to a converter whose assertion panics")
	}
}

// initType returns the static type of the initialiser expression of a
// package-level variable, if it has one.
func initType(p *packages.Package, v *types.Var) types.Type {
	for _, f := range p.Syntax {
		for _, d := range f.Decls {
			gd, ok := d.(*ast.GenDecl)
			if !ok || gd.Tok != token.VAR {
				continue
			}
			for _, sp := range gd.Specs {
				vs := sp.(*ast.ValueSpec)
				for i, n := range vs.Names {
					if p.TypesInfo.Defs[n] == types.Object(v) && i < len(vs.Values) {
						return p.TypesInfo.TypeOf(vs.Values[i])
					}
				}
			}
		}
	}
	return nil
}
