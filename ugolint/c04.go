package main

import (
	"fmt"
	"go/ast"
	"go/constant"
	"go/token"
	"go/types"
	"sort"
	"strings"

	"golang.org/x/tools/go/ssa"
)

func init() {
	props["C04"] = propC04
}

func propC04(c *Ctx) {
	l := c.L
	defer func() {
		rfr := c.Rule("full-read", "every direct Read on an io.Reader in the decoder uses the byte count returned (a reader may deliver the stream in pieces)", 1)
		ruleFullRead(c, rfr)
		rvo := c.Rule("varint-only", "the integer codecs produce their payload with the varint writer only: no byte of it is the truncated value itself", 3)
		ruleVarintOnly(c, rvo)
		rsle := c.Rule("search-last-le", "a decoded file set finds the file of a position as the last file whose base is <= the position (strict predicate in the binary search): positions of errors survive the round trip", 1)
		ruleSearchLastLE(c, rsle)
		rdf := c.Rule("decode-fresh", "no decoder builds its result in storage read from its receiver: values decoded one after the other never share a backing array", 10)
		ruleDecodeFresh(c, rdf)
		rai := c.Rule("assert-inhabited", "every type assertion of the encoder to a concrete repository type targets a type of which values are placed into interfaces somewhere: an assertion to the encoder's own layout-twin of a uGO type can never succeed", 5)
		ruleAssertInhabited(c, rai, func(pp string) bool { return pp == modPath+"/encoder" })
		rgr := c.Rule("gob-register-cover", "every data object type the encoder has a codec for is registered with gob: such a value can be nested in an object that is written through gob", 8)
		ruleGobRegisterCover(c, rgr)
		rms := c.Rule("module-name-stamped", "every successful return of BuiltinModule.Import has assigned the module name into the copied attributes (the decoder re-binds module objects by that name)", 1)
		ruleModuleNameStamped(c, rms)
		rgi := c.Rule("gob-register-init", "every gob registration of the encoder package happens during package initialisation (a process that only decodes has the types registered)", 3)
		ruleGobRegisterInit(c, rgi)
		reg := c.Rule("encode-guard-survives", "every branch of the encoding functions that reads a field of an encoded struct reads a field the decoding functions restore: encoding a decoded Bytecode takes the same decisions as encoding the compiled one", 5)
		ruleEncodeGuardSurvives(c, reg)
		rsl := c.Rule("syncmap-lock", "the encoder walks a SyncMap's map only while it holds the SyncMap's lock (a decoded Bytecode links the host's live module objects: re-encoding it runs beside the host's writers)", 1)
		ruleSyncMapLock(c, rsl, func(pp string) bool { return pp == modPath+"/encoder" })
		rsa := c.Rule("scalar-accept", "the integer scalar decoders reject, on the ground of the decoded value, only values outside the range of the Go type the encoder writes", 3)
		ruleScalarAccept(c, rsa)
	}()
	p := l.ByPath[encPath]
	rt := c.Rule("tag-agree", "for every codec type the set of type-tag constants its MarshalBinary writes equals the set its UnmarshalBinary accepts, and the arm of DecodeObject selected by a tag constructs a codec type whose UnmarshalBinary accepts exactly that tag", 20)
	if !c.Anchor(rt, "package encoder", p != nil) {
		return
	}
	info := p.TypesInfo
	// tag constants: byte constants of package encoder used as case labels in DecodeObject
	var decodeObj *ast.FuncDecl
	methods := map[string]map[string]*ast.FuncDecl{} // type -> name -> decl
	for _, f := range p.Syntax {
		for _, d := range f.Decls {
			fd, ok := d.(*ast.FuncDecl)
			if !ok || fd.Body == nil {
				continue
			}
			if fd.Recv == nil {
				if fd.Name.Name == "DecodeObject" {
					decodeObj = fd
				}
				continue
			}
			rt := info.TypeOf(fd.Recv.List[0].Type)
			n := namedOf(rt)
			if n == nil {
				continue
			}
			if methods[n.Obj().Name()] == nil {
				methods[n.Obj().Name()] = map[string]*ast.FuncDecl{}
			}
			methods[n.Obj().Name()][fd.Name.Name] = fd
		}
	}
	if !c.Anchor(rt, "encoder.DecodeObject", decodeObj != nil) {
		return
	}
	tags := map[types.Object]bool{}
	ast.Inspect(decodeObj.Body, func(n ast.Node) bool {
		cl, ok := n.(*ast.CaseClause)
		if !ok {
			return true
		}
		for _, x := range cl.List {
			if id, ok := ast.Unparen(x).(*ast.Ident); ok {
				if co, ok := info.Uses[id].(*types.Const); ok && co.Pkg() == p.Types {
					tags[co] = true
				}
			}
		}
		return true
	})
	if !c.Anchor(rt, "type-tag constants (case labels of DecodeObject, at least 12)", len(tags) >= 12) {
		return
	}
	// the fallback tag: the arm of DecodeObject that decodes with encoding/gob
	fallback := map[types.Object]bool{}
	ast.Inspect(decodeObj.Body, func(n ast.Node) bool {
		cl, ok := n.(*ast.CaseClause)
		if !ok {
			return true
		}
		usesGob := false
		for _, st := range cl.Body {
			ast.Inspect(st, func(m ast.Node) bool {
				if sel, ok := m.(*ast.SelectorExpr); ok {
					if id, ok := sel.X.(*ast.Ident); ok {
						if pn, ok := info.Uses[id].(*types.PkgName); ok && pn.Imported().Path() == "encoding/gob" {
							usesGob = true
						}
					}
				}
				return true
			})
		}
		if usesGob {
			for _, x := range cl.List {
				if id, ok := ast.Unparen(x).(*ast.Ident); ok && tags[info.Uses[id]] {
					fallback[info.Uses[id]] = true
				}
			}
		}
		return true
	})
	for o := range fallback {
		delete(tags, o)
	}
	tagSet := func(fd *ast.FuncDecl) []string {
		set := map[string]bool{}
		if fd == nil {
			return nil
		}
		ast.Inspect(fd.Body, func(n ast.Node) bool {
			if id, ok := n.(*ast.Ident); ok {
				if o := info.Uses[id]; o != nil && tags[o] {
					set[o.Name()] = true
				}
			}
			return true
		})
		return sortedKeys(set)
	}
	unmarshalTags := map[string][]string{}
	var tnames []string
	for tn := range methods {
		tnames = append(tnames, tn)
	}
	sort.Strings(tnames)
	for _, tn := range tnames {
		m, u := methods[tn]["MarshalBinary"], methods[tn]["UnmarshalBinary"]
		if m == nil && u == nil {
			continue
		}
		mt, ut := tagSet(m), tagSet(u)
		unmarshalTags[tn] = ut
		if len(mt) == 0 && len(ut) == 0 {
			continue // containers of other codec values (Bytecode, SourceFile...) carry no tag of their own
		}
		pos := token.NoPos
		if m != nil {
			pos = m.Pos()
		} else {
			pos = u.Pos()
		}
		// what is written must be accepted (a wrapper such as SyncMap may additionally
		// accept the tag of the type whose encoding it re-uses and patches)
		subset := len(mt) > 0
		for _, t := range mt {
			has := false
			for _, t2 := range ut {
				if t == t2 {
					has = true
				}
			}
			if !has {
				subset = false
			}
		}
		c.Check(rt, "encoder."+tn, l.Pos(pos), m != nil && u != nil && subset,
			"writes and accepts {"+strings.Join(mt, ",")+"}",
			fmt.Sprintf("MarshalBinary writes tags {%s} but UnmarshalBinary accepts {%s}: values of this type do not survive a round trip", strings.Join(mt, ","), strings.Join(ut, ",")))
	}
	// DecodeObject arms
	ast.Inspect(decodeObj.Body, func(n ast.Node) bool {
		cl, ok := n.(*ast.CaseClause)
		if !ok {
			return true
		}
		// innermost clauses only: those that contain no nested case clause
		nested := false
		for _, s := range cl.Body {
			ast.Inspect(s, func(m ast.Node) bool {
				if _, ok := m.(*ast.CaseClause); ok {
					nested = true
				}
				return true
			})
		}
		if nested {
			return true
		}
		var ks []string
		for _, x := range cl.List {
			if id, ok := ast.Unparen(x).(*ast.Ident); ok && tags[info.Uses[id]] {
				ks = append(ks, id.Name)
			}
		}
		if len(ks) == 0 {
			return true
		}
		// codec types whose UnmarshalBinary is called in the arm
		var ts []string
		for _, s := range cl.Body {
			ast.Inspect(s, func(m ast.Node) bool {
				call, ok := m.(*ast.CallExpr)
				if !ok {
					return true
				}
				sel, ok := call.Fun.(*ast.SelectorExpr)
				if !ok || sel.Sel.Name != "UnmarshalBinary" {
					return true
				}
				if nn := namedOf(info.TypeOf(sel.X)); nn != nil {
					ts = append(ts, nn.Obj().Name())
				}
				return true
			})
		}
		if len(ts) == 0 {
			return true // constants (true/false/undefined) and the gob fallback
		}
		key := "DecodeObject case " + strings.Join(ks, ",")
		good := len(ks) == 1 && len(ts) == 1
		if good {
			good = false
			for _, t := range unmarshalTags[ts[0]] {
				if t == ks[0] {
					good = true
				}
			}
		}
		c.Check(rt, key, l.Pos(cl.Pos()), good, "constructs encoder."+strings.Join(ts, ",")+" which accepts this tag",
			fmt.Sprintf("the arm for tag %s decodes with encoder.%s, whose UnmarshalBinary accepts {%s}", strings.Join(ks, ","), strings.Join(ts, ","), strings.Join(unmarshalTags[firstOr(ts)], ",")))
		return true
	})

	// ---- elide ---------------------------------------------------------------------------
	re := c.Rule("elide", "no codec function decides on a floating-point equality: a zero-value elision of a float written as its bit pattern must test the bit pattern (o == 0 also elides -0)", 1)
	nf := 0
	for _, fn := range l.RepoFuncs(func(pp string) bool { return pp == encPath }) {
		eachInstr(fn, func(ins ssa.Instruction) {
			bo, ok := ins.(*ssa.BinOp)
			if !ok || (bo.Op != token.EQL && bo.Op != token.NEQ) {
				return
			}
			b, ok := bo.X.Type().Underlying().(*types.Basic)
			if !ok || b.Info()&types.IsFloat == 0 {
				return
			}
			nf++
			c.Bad(re, fmt.Sprintf("%s | float %s", fnName(fn), bo.Op), l.Pos(bo.Pos()), "a codec function compares floats for equality: -0 == 0 (and NaN != NaN), so the short form loses the sign of negative zero")
		})
	}
	// the float codec exists and uses the bit pattern
	fm := l.Method(encPath, "Float", "MarshalBinary")
	usesBits := false
	if fm != nil {
		eachInstr(fm, func(ins ssa.Instruction) {
			if cl, ok := ins.(*ssa.Call); ok {
				if f := cl.Call.StaticCallee(); f != nil && f.Name() == "Float64bits" {
					usesBits = true
				}
			}
		})
	}
	c.Check(re, "encoder.Float.MarshalBinary encodes the bit pattern", l.Pos(posOf(fm)), fm != nil && usesBits, "uses math.Float64bits", "Float codec not found or does not encode the bit pattern")

	rpe := c.Rule("pool-escape", "no codec function returns bytes derived from an object it hands back to a sync.Pool: encoded data must own its storage", 1)
	rulePoolEscape(c, rpe, l.RepoFuncs(func(pp string) bool { return pp == encPath }))

	rgi := c.Rule("gob-iface", "the gob fallback writes interface values (pointer to interface), matching the reader that decodes into an interface", 1)
	ruleGobIface(c, rgi)
	rcf := c.Rule("copy-all-fields", "a decoder that publishes a Bytecode field by field copies every field", 0)
	ruleCopyAllFields(c, rcf)

	// ---- rebind ----------------------------------------------------------------------------
	rr := c.Rule("rebind", "when a decoded module map is re-bound to the supplied builtin module, every item other than the module-name key reaches the assignment that replaces it (or an error return): no class of items is skipped", 1)
	fix := l.Method(encPath, "Bytecode", "fixObjects")
	if c.Anchor(rr, "encoder.Bytecode.fixObjects", fix != nil) {
		ruleRebind(c, rr, fix)
	}

	// ---- field-cover -------------------------------------------------------------------------
	rf := c.Rule("field-cover", "every field of Bytecode, CompiledFunction, SourceFileSet and SourceFile is read by the encoding side and stored by the decoding side of the codec (audited exclusions aside): a field the VM needs cannot be left out silently", 12)
	ruleFieldCover(c, rf)
}

func firstOr(s []string) string {
	if len(s) > 0 {
		return s[0]
	}
	return ""
}

func posOf(f *ssa.Function) token.Pos {
	if f == nil {
		return token.NoPos
	}
	return f.Pos()
}

// ruleRebind: in fixObjects, inside the range loop over the module map, every
// path from the body's entry back to the loop header passes the map update
// (or leaves the function), except through the true edge of `key == <module
// name constant>`.
func ruleRebind(c *Ctx, rule string, fix *ssa.Function) {
	l := c.L
	attr, _ := l.ByPath[modPath].Types.Scope().Lookup("AttrModuleName").(*types.Const)
	var updates []*ssa.MapUpdate
	// also in the helpers the loop over the module's items may have been moved to
	eachInstrDeep(fix, 2, func(ins ssa.Instruction) {
		if mu, ok := ins.(*ssa.MapUpdate); ok {
			updates = append(updates, mu)
		}
	})
	if len(updates) == 0 {
		c.Bad(rule, "fixObjects", l.Pos(fix.Pos()), "no assignment into the decoded module map: items are never re-bound to the supplied module")
		return
	}
	for _, mu := range updates {
		// the range loop whose key is the update's key
		ex, ok := mu.Key.(*ssa.Extract)
		if !ok {
			c.Und(rule, "fixObjects | obj[item] = o", l.Pos(mu.Pos()), "update key is not a range key: shape not modelled")
			continue
		}
		nx, ok := ex.Tuple.(*ssa.Next)
		if !ok {
			c.Und(rule, "fixObjects | obj[item] = o", l.Pos(mu.Pos()), "update key is not a range key: shape not modelled")
			continue
		}
		header := nx.Block()
		// body entry: successor of the header taken when the iterator has a next element
		iff, ok := header.Instrs[len(header.Instrs)-1].(*ssa.If)
		if !ok {
			c.Und(rule, "fixObjects | obj[item] = o", l.Pos(mu.Pos()), "loop header shape not modelled")
			continue
		}
		_ = iff
		body := header.Succs[0]
		// DFS from body entry; stop at the update; exempt the module-name skip edge
		var offending *ssa.BasicBlock
		seen := map[*ssa.BasicBlock]bool{}
		var walk func(b *ssa.BasicBlock)
		walk = func(b *ssa.BasicBlock) {
			if seen[b] || offending != nil {
				return
			}
			seen[b] = true
			for _, ins := range b.Instrs {
				if ins == ssa.Instruction(mu) {
					return
				}
			}
			last := b.Instrs[len(b.Instrs)-1]
			if _, isRet := last.(*ssa.Return); isRet {
				return
			}
			for i, s := range b.Succs {
				if s == header {
					// reaching the header without the update: allowed only via the skip edge
					exempt := false
					if bi, ok := last.(*ssa.If); ok && i == 0 {
						if bo, ok := bi.Cond.(*ssa.BinOp); ok && bo.Op == token.EQL {
							for _, pr := range [][2]ssa.Value{{bo.X, bo.Y}, {bo.Y, bo.X}} {
								if pr[0] == mu.Key {
									if cst, ok := pr[1].(*ssa.Const); ok && attr != nil && cst.Value != nil && constant.Compare(cst.Value, token.EQL, attr.Val()) {
										exempt = true
									}
								}
							}
						}
					}
					if !exempt {
						offending = b
					}
					continue
				}
				walk(s)
			}
		}
		walk(body)
		pos := l.Pos(mu.Pos())
		det := ""
		if offending != nil && len(offending.Instrs) > 0 {
			det = " (path leaves the loop body at " + l.Pos(offending.Instrs[len(offending.Instrs)-1].Pos()) + ")"
		}
		c.Check(rule, "fixObjects | obj[item] = o", pos, offending == nil, "every item other than the module name reaches the re-binding assignment or an error",
			"some module items skip the re-binding assignment"+det+": decoded placeholders (e.g. Go functions nested in a map or array attribute) stay unbound and calling them panics")
	}
}

// ruleFieldCover: struct fields vs encoder read set and decoder write set.
func ruleFieldCover(c *Ctx, rule string) {
	l := c.L
	sp := l.SPkg(encPath)
	var encRoots, decRoots []*ssa.Function
	for _, f := range l.RepoFuncs(func(pp string) bool { return pp == encPath }) {
		if f.Parent() != nil || f.Synthetic != "" {
			continue
		}
		switch f.Name() {
		case "MarshalBinary", "Encode", "EncodeBytecodeTo":
			encRoots = append(encRoots, f)
		case "UnmarshalBinary", "Decode", "DecodeBytecodeFrom", "DecodeObject":
			decRoots = append(decRoots, f)
		}
	}
	_ = sp
	inEnc := func(f *ssa.Function) bool { return strings.HasPrefix(funcPkgPath(f), encPath) && len(f.Blocks) > 0 }
	encFns := staticReach(encRoots, inEnc)
	decFns := staticReach(decRoots, inEnc)
	c.extra["codec_encoder_functions"] = len(encFns)
	c.extra["codec_decoder_functions"] = len(decFns)
	for _, spec := range []struct{ pkg, typ string }{{modPath, "Bytecode"}, {modPath, "CompiledFunction"}, {parserPath, "SourceFileSet"}, {parserPath, "SourceFile"}} {
		T := l.NamedType(spec.pkg, spec.typ)
		if !c.Anchor(rule, spec.pkg+"."+spec.typ, T != nil) {
			continue
		}
		st := T.Underlying().(*types.Struct)
		for i := 0; i < st.NumFields(); i++ {
			read, written := false, false
			scan := func(fns []*ssa.Function, wantWrite bool) bool {
				for _, fn := range fns {
					found := false
					eachInstr(fn, func(ins ssa.Instruction) {
						switch x := ins.(type) {
						case *ssa.FieldAddr:
							pt, ok := x.X.Type().Underlying().(*types.Pointer)
							if !ok || x.Field != i || !types.Identical(pt.Elem().Underlying(), st) {
								return
							}
							if x.Referrers() == nil {
								return
							}
							for _, r := range *x.Referrers() {
								if s, ok := r.(*ssa.Store); ok && s.Addr == x {
									if wantWrite {
										found = true
									}
								} else if !wantWrite {
									found = true
								}
							}
						case *ssa.Field:
							if !wantWrite && x.Field == i && types.Identical(x.X.Type().Underlying(), st) {
								found = true
							}
						}
					})
					if found {
						return true
					}
				}
				return false
			}
			read = scan(encFns, false)
			written = scan(decFns, true)
			key := spec.typ + "." + st.Field(i).Name()
			det := ""
			if !read {
				det += "not read by any encoding function; "
			}
			if !written {
				det += "not stored by any decoding function; "
			}
			c.Check(rule, key, l.Pos(st.Field(i).Pos()), read && written, "read when encoding, stored when decoding", det+"the field is lost by an encode/decode round trip")
		}
	}
}
