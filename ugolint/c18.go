package main

import (
	"fmt"
	"go/token"
	"go/types"
	"strings"

	"golang.org/x/tools/go/ssa"
)

const encPath = modPath + "/encoder"

func init() {
	props["C18"] = propC18
}

// decodeFuncs: the functions of package encoder (and encoder/opv1) reachable by
// static calls from the decoding entry points: DecodeBytecodeFrom,
// DecodeObject and every UnmarshalBinary / Decode method of the package.
func decodeFuncs(c *Ctx, rule string) []*ssa.Function {
	sp := c.L.SPkg(encPath)
	if !c.Anchor(rule, "package "+encPath, sp != nil) {
		return nil
	}
	var roots []*ssa.Function
	for _, n := range []string{"DecodeBytecodeFrom", "DecodeObject"} {
		f := sp.Func(n)
		if c.Anchor(rule, "encoder."+n, f != nil) {
			roots = append(roots, f)
		}
	}
	nUnm := 0
	for _, f := range c.L.RepoFuncs(func(pp string) bool { return pp == encPath }) {
		if f.Signature.Recv() != nil && f.Parent() == nil && (f.Name() == "UnmarshalBinary" || f.Name() == "Decode") && f.Synthetic == "" {
			roots = append(roots, f)
			nUnm++
		}
	}
	c.Anchor(rule, "UnmarshalBinary methods of package encoder (found fewer than 10)", nUnm >= 10)
	return staticReach(roots, func(f *ssa.Function) bool {
		pp := funcPkgPath(f)
		return strings.HasPrefix(pp, encPath) && len(f.Blocks) > 0
	})
}

func propC18(c *Ctx) {
	ra := c.Rule("assert", "no unchecked type assertion on a decoded object: every non-comma-ok assertion on the decode path is dominated by a successful comma-ok test of the same value and type", 0)
	rl := c.Rule("alloc", "every make() on the decode path whose size is not a constant is dominated by comparisons that make the size non-negative and bound it by the length of the input held in memory (len/cap/Reader.Len) or by a constant <= 2^20", 5)
	rs := c.Rule("slice", "every slice expression on the decode path with a non-trivial bound has its upper bound proven <= len(operand) and low <= high (integer wrap-around included) by dominating comparisons", 10)
	ri := c.Rule("index", "every index expression on the decode path is proven 0 <= i < len(operand) by dominating comparisons (fixed tables such as opWidth included)", 5)
	rp := c.Rule("panic-reach", "no explicit panic statement on the decode path", 0)
	rn := c.Rule("nil-call", "no method call on a map element read without a presence test on the decode path (absent key = nil interface = nil dereference panic)", 0)
	rdn := c.Rule("decode-nonnil", "DecodeObject never returns a nil object together with a nil error (callers call methods on the result): every success return yields a value that is non-nil by construction or was tested non-nil", 5)
	ruleDecodeNonNil(c, rdn)
	fns := decodeFuncs(c, rs)
	ruleNilCall(c, rn, fns)
	c.extra["decode_path_functions"] = len(fns)
	scanSinks(c, fns, sinkRules{assert: ra, alloc: rl, slice: rs, index: ri, panics: rp})
	rls := c.Rule("loop-stutter", "no loop on the decode path has an effect-free cycle on which every loop variable keeps its value (decoding terminates: a necessary condition only)", 1)
	ruleLoopStutter(c, rls, fns, 8)
	rmn := c.Rule("map-update-nonnil", "every map update on the decode path writes to a map that is made in the function, filled where it was nil, or tested non-nil (decoding into a zero value does not panic)", 2)
	ruleMapUpdateNonNil(c, rmn, fns)
	rdr := c.Rule("decode-reentrant", "the decoding functions keep no state in package-level variables: none is assigned, and package-level slices and maps are only read", 1)
	ruleDecodeReentrant(c, rdr, fns)
	rdo := c.Rule("decoded-opaque", "no method is invoked on an object returned by DecodeObject on the decode path: it is asserted to the expected type, stored or returned (a gob container can hold nil elements that String / Equal / Copy dereference)", 3)
	ruleDecodedOpaque(c, rdo, fns)
}

// ruleDecodeNonNil: success returns of DecodeObject carry a non-nil object.
func ruleDecodeNonNil(c *Ctx, rule string) {
	l := c.L
	fn := l.Func(encPath, "DecodeObject")
	if !c.Anchor(rule, "encoder.DecodeObject", fn != nil) {
		return
	}
	for _, b := range fn.Blocks {
		ret, ok := b.Instrs[len(b.Instrs)-1].(*ssa.Return)
		if !ok || len(ret.Results) != 2 {
			continue
		}
		if cst, ok := ret.Results[1].(*ssa.Const); !ok || !cst.IsNil() {
			continue
		}
		v := ret.Results[0]
		good, why := false, ""
		switch x := v.(type) {
		case *ssa.MakeInterface:
			good = true
			// a pointer wrapped into the interface must itself be non-nil: address of a local / fresh alloc
			if _, isPtr := x.X.Type().Underlying().(*types.Pointer); isPtr {
				switch x.X.(type) {
				case *ssa.Alloc, *ssa.ChangeType, *ssa.Convert:
				default:
					good, why = false, "wraps a pointer that is not a fresh allocation"
				}
			}
		case *ssa.UnOp:
			// load of a package-level singleton (Undefined, True, False) or of a local that was tested
			if _, isG := x.X.(*ssa.Global); isG {
				good = true
			}
		case *ssa.Const:
			good, why = !x.IsNil(), "returns a nil object with a nil error"
		}
		if !good {
			for _, g := range guardEdges(b) {
				bo, ok := g.If.Cond.(*ssa.BinOp)
				if !ok {
					continue
				}
				for _, pr := range [][2]ssa.Value{{bo.X, bo.Y}, {bo.Y, bo.X}} {
					if cst, ok := pr[1].(*ssa.Const); ok && cst.IsNil() && (pr[0] == v || exprEq(pr[0], v)) {
						if (bo.Op == token.NEQ && g.Truth) || (bo.Op == token.EQL && !g.Truth) {
							good = true
						}
					}
				}
			}
		}
		if why == "" {
			why = "the returned object is not proven non-nil"
		}
		c.Check(rule, fmt.Sprintf("DecodeObject | return %s, nil", describe(v)), l.Pos(ret.Pos()), good, "non-nil by construction or tested",
			why+": a gob stream carrying a nil interface decodes to (nil, nil) and the caller's method call on it panics (12-byte input 00 75 47 4f 00 02 03 ff 03 10 00 00)")
	}
}
