package main

import (
	"strings"

	"golang.org/x/tools/go/ssa"
)

const encPath = modPath + "/encoder"

func init() {
	props["C18"] = propC18
}

// decodeFuncs: the functions of package encoder (and encoder/opv1) reachable by
// static calls from the decoding entry points: DecodeBytecodeFrom,
// DecodeObject and every UnmarshalBinary / Decode method of the package.
func decodeFuncs(c *Ctx, rule string) []*ssa.Function {
	sp := c.L.SPkg(encPath)
	if !c.Anchor(rule, "package "+encPath, sp != nil) {
		return nil
	}
	var roots []*ssa.Function
	for _, n := range []string{"DecodeBytecodeFrom", "DecodeObject"} {
		f := sp.Func(n)
		if c.Anchor(rule, "encoder."+n, f != nil) {
			roots = append(roots, f)
		}
	}
	nUnm := 0
	for _, f := range c.L.RepoFuncs(func(pp string) bool { return pp == encPath }) {
		if f.Signature.Recv() != nil && f.Parent() == nil && (f.Name() == "UnmarshalBinary" || f.Name() == "Decode") && f.Synthetic == "" {
			roots = append(roots, f)
			nUnm++
		}
	}
	c.Anchor(rule, "UnmarshalBinary methods of package encoder (found fewer than 10)", nUnm >= 10)
	return staticReach(roots, func(f *ssa.Function) bool {
		pp := funcPkgPath(f)
		return strings.HasPrefix(pp, encPath) && len(f.Blocks) > 0
	})
}

func propC18(c *Ctx) {
	ra := c.Rule("assert", "no unchecked type assertion on a decoded object: every non-comma-ok assertion on the decode path is dominated by a successful comma-ok test of the same value and type", 0)
	rl := c.Rule("alloc", "every make() on the decode path whose size is not a constant is dominated by comparisons that make the size non-negative and bound it by the length of the input held in memory (len/cap/Reader.Len) or by a constant <= 2^20", 5)
	rs := c.Rule("slice", "every slice expression on the decode path with a non-trivial bound has its upper bound proven <= len(operand) and low <= high (integer wrap-around included) by dominating comparisons", 10)
	ri := c.Rule("index", "every index expression on the decode path is proven 0 <= i < len(operand) by dominating comparisons (fixed tables such as opWidth included)", 5)
	rp := c.Rule("panic-reach", "no explicit panic statement on the decode path", 0)
	rn := c.Rule("nil-call", "no method call on a map element read without a presence test on the decode path (absent key = nil interface = nil dereference panic)", 0)
	fns := decodeFuncs(c, rs)
	ruleNilCall(c, rn, fns)
	c.extra["decode_path_functions"] = len(fns)
	scanSinks(c, fns, sinkRules{assert: ra, alloc: rl, slice: rs, index: ri, panics: rp})
}
