package main

import (
	"fmt"
	"go/token"
	"go/types"
	"strings"

	"golang.org/x/tools/go/ssa"
)

func init() {
	props["C14"] = propC14
	props["C06"] = propC06
	props["C09"] = propC09
}

// poolFacts: the functions that manage pooled child VMs, found by role.
type poolFacts struct {
	acquire *ssa.Function // method of vmPool that stores the child's fields from the root
	release *ssa.Function // method of vmPool that puts the VM back into the sync.Pool
	abort   *ssa.Function // method of vmPool that calls Abort on the registered children
	fVMs    int
	fMu     int
	fRoot   int
}

func getPoolFacts(c *Ctx, rule string, vf *vmFacts) *poolFacts {
	l := c.L
	pf := &poolFacts{}
	_, pf.fVMs = l.structField(modPath, "vmPool", "vms")
	_, pf.fMu = l.structField(modPath, "vmPool", "mu")
	_, pf.fRoot = l.structField(modPath, "vmPool", "root")
	if !c.Anchor(rule, "vmPool.vms / vmPool.mu / vmPool.root", pf.fVMs >= 0 && pf.fMu >= 0 && pf.fRoot >= 0) {
		return nil
	}
	abortM := l.Method(modPath, "VM", "Abort")
	// roles are decided on a method together with the helpers split out of it
	// (callees inside the pool domain); among nested candidates (acquire ->
	// _acquire) the innermost pool method has the role
	dom := l.poolDomain()
	type cand struct {
		fn                            *ssa.Function
		putsBack, callsAbort, configs bool
		callees                       map[*ssa.Function]bool
	}
	var cands []*cand
	for _, fn := range l.RepoFuncs(func(pp string) bool { return pp == modPath }) {
		r := fn.Signature.Recv()
		if r == nil || !isNamed(r.Type(), modPath, "vmPool") || fn.Parent() != nil {
			continue
		}
		cd := &cand{fn: fn, callees: map[*ssa.Function]bool{}}
		stored := map[string]bool{}
		var rec func(g *ssa.Function, depth int)
		rec = func(g *ssa.Function, depth int) {
			d, _ := vf.storedVMFields(g)
			for k := range d {
				stored[k] = true
			}
			eachInstr(g, func(ins ssa.Instruction) {
				// VM.Abort handed on as a function value (v.each((*VM).Abort)): the
				// method expression is a synthetic thunk that calls it
				for _, op := range ins.Operands(nil) {
					if fv, ok := (*op).(*ssa.Function); ok && abortM != nil {
						if fv == abortM {
							cd.callsAbort = true
						} else if fv.Synthetic != "" && len(fv.Blocks) > 0 {
							eachInstr(fv, func(x ssa.Instruction) {
								if xc, ok := x.(ssa.CallInstruction); ok && xc.Common().StaticCallee() == abortM {
									cd.callsAbort = true
								}
							})
						}
					}
				}
				ci, ok := ins.(ssa.CallInstruction)
				if !ok {
					return
				}
				f := ci.Common().StaticCallee()
				if f == nil {
					return
				}
				if f.Name() == "Put" && f.Pkg != nil && f.Pkg.Pkg.Path() == "sync" {
					cd.putsBack = true
				}
				if f == abortM {
					cd.callsAbort = true
				}
				if dom[f] && f != fn && !cd.callees[f] && depth < 3 && len(f.Blocks) > 0 {
					cd.callees[f] = true
					rec(f, depth+1)
				}
			})
		}
		rec(fn, 0)
		cd.configs = len(stored) >= 3
		cands = append(cands, cd)
	}
	innermost := func(has func(*cand) bool) *ssa.Function {
		var out *ssa.Function
		for _, cd := range cands {
			if !has(cd) {
				continue
			}
			inner := false
			for _, o := range cands {
				if o != cd && has(o) && cd.callees[o.fn] {
					inner = true
				}
			}
			if !inner {
				out = cd.fn
			}
		}
		return out
	}
	pf.release = innermost(func(cd *cand) bool { return cd.putsBack })
	pf.abort = innermost(func(cd *cand) bool { return cd.callsAbort && !cd.putsBack })
	pf.acquire = innermost(func(cd *cand) bool { return cd.configs && !cd.putsBack && !cd.callsAbort })
	ok := c.Anchor(rule, "vmPool method that initialises a child VM from the root (acquire)", pf.acquire != nil)
	ok = c.Anchor(rule, "vmPool method that returns a VM to the sync.Pool (release)", pf.release != nil) && ok
	ok = c.Anchor(rule, "vmPool method that aborts the registered children", pf.abort != nil) && ok
	if !ok {
		return nil
	}
	return pf
}

// rootFieldLoad: v is (a value-preserving view of) a load of field `name` of
// the root VM reached through vmPool.root.
func (pf *poolFacts) rootFieldLoad(vf *vmFacts, v ssa.Value, path ...string) bool {
	v = stripChangeOnly(v)
	u, ok := v.(*ssa.UnOp)
	if !ok || u.Op != token.MUL {
		return false
	}
	// walk the access path backwards: last name first
	cur := u.X
	for i := len(path) - 1; i >= 0; i-- {
		fa, ok := cur.(*ssa.FieldAddr)
		if !ok {
			return false
		}
		st, ok := fa.X.Type().Underlying().(*types.Pointer).Elem().Underlying().(*types.Struct)
		if !ok || st.Field(fa.Field).Name() != path[i] {
			return false
		}
		if i == 0 {
			// base must be load(&pool.root), possibly passed down to a helper
			// with a single call site as a parameter
			bu, ok := vf.l.paramArg(fa.X).(*ssa.UnOp)
			if !ok {
				return false
			}
			_, isRoot := isFieldAddrOf(bu.X, modPath, "vmPool", pf.fRoot)
			return isRoot
		}
		lu, ok := fa.X.(*ssa.UnOp)
		if !ok || lu.Op != token.MUL {
			return false
		}
		cur = lu.X
	}
	return false
}

// childInit: shared by C14 (child-init) and C06 (child-flag).
func ruleChildInit(c *Ctx, rule string, vf *vmFacts, pf *poolFacts, only map[string]bool) {
	l := c.L
	// K: VM fields read by run-time code and not re-initialised by Run's prologue
	callsRun := callTo(func(f *ssa.Function) bool { return f == vf.run })
	entry := vf.Run.Blocks[0].Instrs[0]
	readBy := map[string]string{}
	scope := append([]*ssa.Function{vf.Run, vf.run}, vf.reachFns...)
	scope = append(scope, vf.Run.AnonFuncs...)
	scope = append(scope, vf.run.AnonFuncs...)
	for _, fn := range scope {
		if l.poolDomain()[fn] {
			continue
		}
		eachInstr(fn, func(ins ssa.Instruction) {
			fa, ok := ins.(*ssa.FieldAddr)
			if !ok {
				return
			}
			if _, isVM := vf.isVMFieldAddr(fa); !isVM {
				return
			}
			name := vf.vmS.Field(fa.Field).Name()
			if _, had := readBy[name]; !had {
				readBy[name] = fnName(fn)
			}
		})
	}
	first := pf.acquire.Blocks[0].Instrs[0]
	for _, name := range sortedKeys(mapKeys(readBy)) {
		if only != nil && !only[name] {
			continue
		}
		switch name {
		case "mu", "stack", "frames":
			continue // storage, not configuration: the child's own arrays and lock
		}
		if _, reset := mustPassBefore(entry, vf.storesVMField(name), callsRun); reset {
			continue
		}
		_, stored := mustPassBefore(first, vf.storesVMField(name), isReturn)
		key := "child VM." + name
		c.Check(rule, key, l.Pos(pf.acquire.Pos()), stored, "acquire stores it on every path (read by "+readBy[name]+")",
			"run-time code ("+readBy[name]+") reads VM."+name+", Run does not initialise it, release zeroes the pooled VM, and acquire does not store it on every path: a child VM runs with a zero value instead of the parent's setting")
	}
}

func mapKeys(m map[string]string) map[string]bool {
	o := map[string]bool{}
	for k := range m {
		o[k] = true
	}
	return o
}

func propC14(c *Ctx) {
	l := c.L
	defer func() {
		rti := c.Rule("throw-identity", "a Go error that already is a *RuntimeError re-enters the VM as the same object: an error raised by a script function keeps its identity when the function is called from Go", 1)
		ruleThrowIdentity(c, rti)
		rce := c.Rule("callback-err", "a library callback that records the error of the script function keeps the first error (no further call once one is recorded) in a variable local to the call", 1)
		ruleCallbackErr(c, rce)
		rfc := c.Rule("frame-clear-init", "every field of the first frame that the end of a run clears is established again by the start of a run (a child VM is good for any number of invocations)", 2)
		ruleFrameClearInit(c, rfc)
		rav := c.Rule("arity-with-variadic", "every function that compares an argument count with a compiled function's NumParams also looks at Variadic (NumParams counts the rest parameter)", 3)
		ruleArityWithVariadic(c, rav)
		rir := c.Rule("invoke-result-identity", "Invoke returns the object the call produced (first result of an (Object, error) call) or Undefined on every path, never something computed from it", 2)
		ruleInvokeResultIdentity(c, rir)
	}()
	ri := c.Rule("child-init", "every VM field that run-time code reads and Run's prologue does not initialise is stored by the pool's acquire on every path (release zeroes the whole VM), and every Bytecode field run-time code reads is stored into the child's private Bytecode", 6)
	vf := getVMFacts(c, ri)
	if vf == nil {
		return
	}
	pf := getPoolFacts(c, ri, vf)
	if pf == nil {
		return
	}
	ruleChildInit(c, ri, vf, pf, nil)
	// Bytecode fields read at run time
	bcT := l.NamedType(modPath, "Bytecode")
	if bcS, ok := bcT.Underlying().(*types.Struct); ok {
		first := pf.acquire.Blocks[0].Instrs[0]
		scope := append([]*ssa.Function{vf.Run, vf.run}, vf.reachFns...)
		for i := 0; i < bcS.NumFields(); i++ {
			name := bcS.Field(i).Name()
			reader := ""
			for _, fn := range scope {
				if l.poolDomain()[fn] {
					continue
				}
				for _, acc := range fieldAccesses([]*ssa.Function{fn}, modPath, "Bytecode", i) {
					if !acc.Write && reader == "" {
						reader = fnName(fn)
					}
				}
			}
			if reader == "" {
				continue
			}
			_, stored := mustPassBefore(first, storesStructField(l, modPath, "Bytecode", name), isReturn)
			c.Check(ri, "child Bytecode."+name, l.Pos(pf.acquire.Pos()), stored, "acquire stores it on every path (read by "+reader+")",
				"run-time code ("+reader+") reads Bytecode."+name+" but acquire does not store it into the child's private Bytecode on every path")
		}
	}

	// ---- share-modcache / value flow from the root -------------------------------------------
	rs := c.Rule("root-share", "the child VM's module cache IS the root's slice (not a copy: a module first loaded by the function called from Go must be visible to the parent and to later imports), and its constants, recovery flag and file set are read from the root VM", 3)
	for _, spec := range []struct {
		field string
		path  []string
		exact bool
	}{
		{"modulesCache", []string{"modulesCache"}, true},
		{"noPanic", []string{"noPanic"}, true},
		{"constants", []string{"bytecode", "Constants"}, true},
	} {
		idx := vf.field(spec.field)
		if !c.Anchor(rs, "VM."+spec.field, idx >= 0) {
			continue
		}
		var st *ssa.Store
		eachInstrDeep(pf.acquire, 3, func(ins ssa.Instruction) {
			if s, ok := ins.(*ssa.Store); ok {
				if fa, ok := vf.isVMFieldAddr(s.Addr); ok && fa.Field == idx {
					st = s
				}
			}
		})
		key := "child VM." + spec.field + " = root"
		if st == nil {
			c.Bad(rs, key, l.Pos(pf.acquire.Pos()), "acquire has no store to VM."+spec.field)
			continue
		}
		c.Check(rs, key, l.Pos(st.Pos()), pf.rootFieldLoad(vf, st.Val, spec.path...), "stored value is the root VM's "+strings.Join(spec.path, "."),
			"the value stored into the child's "+spec.field+" is not the root VM's "+strings.Join(spec.path, ".")+" itself (a copy or another source): state is not shared with the parent run")
	}

	// ---- globals ---------------------------------------------------------------------------------
	rg := c.Rule("globals", "Invoke runs a compiled callee on the child VM with the ROOT VM's globals", 1)
	invoke := l.Method(modPath, "Invoker", "Invoke")
	fInvVM, _ := l.invokerVMFields()
	fGlobals := vf.field("globals")
	if c.Anchor(rg, "Invoker.Invoke / Invoker.vm / VM.globals", invoke != nil && fInvVM >= 0 && fGlobals >= 0) {
		n := 0
		eachInstr(invoke, func(ins ssa.Instruction) {
			ci, ok := ins.(ssa.CallInstruction)
			if !ok || ci.Common().StaticCallee() != vf.Run {
				return
			}
			n++
			arg := ci.Common().Args[1]
			good := false
			if u, ok := stripChange(arg).(*ssa.UnOp); ok {
				if fa, ok := vf.isVMFieldAddr(u.X); ok && fa.Field == fGlobals {
					if bu, ok := fa.X.(*ssa.UnOp); ok {
						_, good = isFieldAddrOf(bu.X, modPath, "Invoker", fInvVM)
					}
				}
			}
			c.Check(rg, "Invoker.Invoke | child.Run(globals, ...)", l.Pos(ci.Pos()), good, "globals argument is inv.vm.globals (the root VM)", "the child run does not receive the root VM's globals: the function sees other globals than in-script calls")
		})
		if n == 0 {
			c.Und(rg, "Invoker.Invoke | child.Run", l.Pos(invoke.Pos()), "no call of VM.Run in Invoke: shape not modelled")
		}
	}

	// ---- release-pair ------------------------------------------------------------------------------
	rp := c.Rule("release-pair", "in the library's own users of Invoker every Acquire is followed on all paths by Release (a deferred Release counts)", 1)
	acq := l.Method(modPath, "Invoker", "Acquire")
	rel := l.Method(modPath, "Invoker", "Release")
	if c.Anchor(rp, "Invoker.Acquire / Release", acq != nil && rel != nil) {
		for _, ci := range l.StaticCallers(acq) {
			fn := ci.Parent()
			if !isLibPkg(funcPkgPath(fn)) {
				continue
			}
			recv := ci.Common().Args[0]
			via := func(ins ssa.Instruction) bool {
				x, ok := ins.(ssa.CallInstruction)
				return ok && x.Common().StaticCallee() == rel && x.Common().Args[0] == recv
			}
			_, ok := mustPassBefore(ci, via, isReturn)
			c.Check(rp, fnName(fn)+" | Acquire()", l.Pos(ci.Pos()), ok, "Release (or defer Release) follows on every path", "a path from Acquire reaches a return without Release: the pooled VM stays registered and is never returned")
		}
	}

	rrc := c.Rule("release-clears", "Release clears the invoker's child VM on every path", 1)
	ruleReleaseClears(c, rrc)
	rvf := c.Rule("variadic-fresh", "a function run from Go gets its variadic parameter as freshly allocated storage, like the in-script call sequence", 1)
	ruleVariadicFresh(c, rvf, vf)
	rf0 := c.Rule("frame0-reset", "a child VM that is invoked repeatedly starts each call from re-initialised frame state (every frame field run-time code reads is stored by Run's prologue)", 3)
	ruleFrame0Reset(c, rf0, vf)

	// ---- pool-zero ------------------------------------------------------------------------------------
	rz := c.Rule("pool-zero", "every path to sync.Pool.Put(vm) resets the whole VM (a whole-struct store, or a store to every field including the abort flag) and its private Bytecode: a pooled VM must not carry the abort flag, handlers or data of its previous use", 1)
	rulePoolZero(c, rz, vf, pf)
	rps := c.Rule("pool-symmetric", "child VMs are registered on and unregistered from the same pool (the root VM's): otherwise a released pooled VM stays in its old root's registry and that VM's Abort makes an unrelated Invoke fail", 1)
	rulePoolSymmetric(c, rps, pf)
	rbo := c.Rule("child-bc-own", "every Bytecode header stored into a VM is that VM's own storage (fresh, the caller's program, or its previous header): a header shared by child VMs makes one Invoker run another's function", 2)
	ruleChildBytecodeOwn(c, rbo, vf)
	ruc := c.Rule("unregister-clears", "a method of Invoker that unregisters its child VM also clears its reference to it on every path (a cached but unregistered child would be reused by the next Invoke)", 1)
	ruleUnregisterClears(c, ruc, pf)
	rfci := c.Rule("frame-claim-init", "the call routine stores every field of a call frame it claims before it returns successfully (a function invoked from Go on a reused child VM starts with clean frames)", 3)
	ruleFrameClaimInit(c, rfci, vf)
}

func rulePoolZero(c *Ctx, rule string, vf *vmFacts, pf *poolFacts) {
	l := c.L
	eachInstr(pf.release, func(ins ssa.Instruction) {
		ci, ok := ins.(ssa.CallInstruction)
		if !ok {
			return
		}
		f := ci.Common().StaticCallee()
		if f == nil || f.Name() != "Put" || f.Pkg == nil || f.Pkg.Pkg.Path() != "sync" {
			return
		}
		entry := pf.release.Blocks[0].Instrs[0]
		var missing []string
		for i := 0; i < vf.vmS.NumFields(); i++ {
			name := vf.vmS.Field(i).Name()
			if name == "mu" {
				continue
			}
			pred := vf.storesVMField(name)
			if pred(entry) {
				continue
			}
			if _, ok := mustPassBefore(entry, pred, func(x ssa.Instruction) bool { return x == ins }); !ok {
				missing = append(missing, name)
			}
		}
		c.Check(rule, fnName(pf.release)+" | sync.Pool.Put", l.Pos(ins.Pos()), len(missing) == 0, "every VM field is reset before the VM is pooled",
			"the VM is returned to the pool without resetting "+strings.Join(missing, ", ")+": the next user of the pooled VM inherits it (e.g. a set abort flag makes an unrelated Invoke fail with VMAbortedError)")
	})
}

// ---- C06 ------------------------------------------------------------------------------------------

func propC06(c *Ctx) {
	l := c.L
	rd := c.Rule("recover-dom", "the dispatch loop is entered only from a function whose deferred closure calls recover() when the recovery flag is set, and that function is called only from Run", 2)
	vf := getVMFacts(c, rd)
	if vf == nil {
		return
	}
	defer func() {
		rtc := c.Rule("throw-then-continue", "after the unwinding routine reports an error handled, a dispatch arm goes straight back to the head of the dispatch loop (the handler's stack pointer and locals are not touched by the rest of the arm)", 5)
		ruleThrowThenContinue(c, rtc, vf)
	}()
	// callers of loop
	for _, ci := range l.StaticCallers(vf.loop) {
		fn := ci.Parent()
		hasRecover := false
		condOnFlag := false
		eachInstr(fn, func(ins ssa.Instruction) {
			d, ok := ins.(*ssa.Defer)
			if !ok || !instrDominates(d, ci) {
				return
			}
			var clo *ssa.Function
			if mc, ok := d.Call.Value.(*ssa.MakeClosure); ok {
				clo, _ = mc.Fn.(*ssa.Function)
			}
			if clo == nil {
				return
			}
			fNoPanic := vf.field("noPanic")
			eachInstr(clo, func(x ssa.Instruction) {
				if cl, ok := x.(*ssa.Call); ok {
					if b, ok := cl.Call.Value.(*ssa.Builtin); ok && b.Name() == "recover" {
						hasRecover = true
						for _, g := range guardEdges(cl.Block()) {
							if u, ok := g.If.Cond.(*ssa.UnOp); ok && g.Truth {
								if fa, ok := vf.isVMFieldAddr(u.X); ok && fa.Field == fNoPanic {
									condOnFlag = true
								}
							}
						}
					}
				}
			})
		})
		c.Check(rd, fnName(fn)+" | calls the dispatch loop", l.Pos(ci.Pos()), hasRecover && condOnFlag, "under a deferred recover() guarded by the recovery flag",
			fmt.Sprintf("the dispatch loop is entered without a dominating deferred recover (recover=%v, guarded by noPanic=%v): a Go panic in an operator or builtin escapes to the host", hasRecover, condOnFlag))
	}
	for _, ci := range l.StaticCallers(vf.run) {
		c.Check(rd, fnName(ci.Parent())+" | calls the recovering runner", l.Pos(ci.Pos()), ci.Parent() == vf.Run, "called from Run", "the recovering runner is entered from somewhere other than Run")
	}

	// ---- handler-guard -------------------------------------------------------------------------------
	rh := c.Rule("handler-guard", "in the panic handler the call that unwinds to a script handler is dominated by tests that the stack pointer is strictly inside the value stack (the unwinder indexes stack[sp]) and the frame index inside the frame array", 1)
	fSp, fFrameIdx, fStack, fFrames := vf.field("sp"), vf.field("frameIndex"), vf.field("stack"), vf.field("frames")
	if c.Anchor(rh, "VM.sp / frameIndex / stack / frames", fSp >= 0 && fFrameIdx >= 0 && fStack >= 0 && fFrames >= 0) {
		stackLen := vf.vmS.Field(fStack).Type().Underlying().(*types.Array).Len()
		framesLen := vf.vmS.Field(fFrames).Type().Underlying().(*types.Array).Len()
		// the handler: the function called from the deferred closure with the recovered value
		n := 0
		for _, fn := range l.RepoFuncs(func(pp string) bool { return pp == modPath }) {
			if fn.Parent() == nil || fn.Parent() != vf.run {
				continue
			}
			eachInstr(fn, func(ins ssa.Instruction) {
				cl, ok := ins.(*ssa.Call)
				if !ok {
					return
				}
				h := cl.Call.StaticCallee()
				if h == nil || h.Signature.Recv() == nil || !isNamed(h.Signature.Recv().Type(), modPath, "VM") || len(h.Blocks) == 0 {
					return
				}
				// inside the handler: calls that can reach the unwinder (functions that index vm.stack with vm.sp)
				eachInstr(h, func(x ssa.Instruction) {
					uc, ok := x.(*ssa.Call)
					if !ok {
						return
					}
					uf := uc.Call.StaticCallee()
					if uf == nil || uf.Signature.Recv() == nil || !isNamed(uf.Signature.Recv().Type(), modPath, "VM") || !strings.HasPrefix(funcPkgPath(uf), modPath) {
						return
					}
					if !returnsError(uf) {
						return
					}
					n++
					spHi, fiHi := int64(posInf), int64(posInf)
					for _, g := range guardEdges(uc.Block()) {
						bo, ok := g.If.Cond.(*ssa.BinOp)
						if !ok {
							continue
						}
						for _, opd := range []ssa.Value{bo.X, bo.Y} {
							u, ok := opd.(*ssa.UnOp)
							if !ok {
								continue
							}
							fa, ok := vf.isVMFieldAddr(u.X)
							if !ok {
								continue
							}
							r := rangeAt(opd, uc.Block(), 64)
							if fa.Field == fSp && r.hi < spHi {
								spHi = r.hi
							}
							if fa.Field == fFrameIdx && r.hi < fiHi {
								fiHi = r.hi
							}
						}
					}
					good := spHi <= stackLen-1 && fiHi <= framesLen
					c.Check(rh, fmt.Sprintf("%s | %s()", fnName(h), uf.Name()), l.Pos(uc.Pos()), good,
						fmt.Sprintf("sp <= %d, frameIndex <= %d established", spHi, fiHi),
						fmt.Sprintf("the unwinding call is reached with sp <= %s (value stack has %d slots, so sp must be <= %d) and frameIndex <= %s (limit %d): after a stack overflow the handler indexes past the stack and the second panic escapes Run", showBound(spHi), stackLen, stackLen-1, showBound(fiHi), framesLen))
				})
			})
		}
		if n == 0 {
			c.Und(rh, "panic handler", l.Pos(vf.run.Pos()), "no unwinding call found in the panic handler: shape not modelled")
		}
	}

	// ---- a VM that recovered a panic can run further scripts: its state is re-initialised ----
	rrr := c.Rule("run-reset", "every VM field that run-time code stores is re-initialised by Run's prologue on every path (a run ended by a recovered panic leaves arbitrary state behind)", 5)
	ruleRunReset(c, rrr, vf)
	rfr := c.Rule("frame0-reset", "every call-frame field run-time code reads is stored for frame 0 by Run's prologue on every path (the deferred clean-up is skipped on the panic path)", 3)
	ruleFrame0Reset(c, rfr, vf)
	rhn := c.Rule("handler-nil", "every dereference of a frame's function pointer in code the panic handler reaches is dominated by a nil test (that code runs outside any recover)", 1)
	ruleHandlerNil(c, rhn, vf)

	rdu := c.Rule("defer-unlock", "in the VM and the stdlib modules a mutex held across calls is released by a deferred Unlock (an explicit Unlock is skipped when a recovered panic unwinds through the function, leaving the VM or object locked)", 1)
	ruleDeferUnlock(c, rdu, l.RepoFuncs(isLibPkg))

	rtr := c.Rule("throw-reentry", "the unwinding routine is not re-entered from the functions it calls while the VM's frame state is only partly switched", 1)
	ruleThrowReentry(c, rtr)
	if vf2 := getVMFacts(c, rtr); vf2 != nil {
		rfa := c.Rule("frame-claim-atomic", "the call routine cannot fail after it advanced the frame index: a frame overflow caught by the script leaves the VM's frame bookkeeping intact", 1)
		ruleFrameClaimAtomic(c, rfa, vf2)
	}
	rha := c.Rule("handler-active", "every frame handed to the handler switch was selected by hasActiveHandler on that frame: the VM never jumps to a consumed handler", 2)
	ruleHandlerActive(c, rha)
	rie := c.Rule("invoke-err", "the error result of every Invoker.Invoke in the library is stored, returned or passed on: an error or recovered panic raised in a script callback reaches the calling script", 2)
	ruleInvokeErr(c, rie)
	rfci := c.Rule("frame-claim-init", "the call routine stores every field of a call frame it claims before it returns successfully (a reused frame must not keep the error handlers of an earlier activation)", 3)
	ruleFrameClaimInit(c, rfci, vf)
	rjd := c.Rule("json-depth", "every growth of the JSON scanner's nesting stack is followed by the maximum-depth test: the recursive decoder cannot be driven into exhausting the Go stack, which no recover() can stop", 1)
	ruleJSONDepth(c, rjd)

	// ---- child-flag ---------------------------------------------------------------------------------------
	rc := c.Rule("child-flag", "a child VM takes the parent's recovery flag when acquired (otherwise a panic inside a function invoked from Go skips the function's own catch/finally or escapes to the host)", 1)
	if pf := getPoolFacts(c, rc, vf); pf != nil {
		ruleChildInit(c, rc, vf, pf, map[string]bool{"noPanic": true})
	}
}

func returnsError(f *ssa.Function) bool {
	res := f.Signature.Results()
	return res.Len() == 1 && isErrorType(res.At(0).Type())
}

// ---- C09 ------------------------------------------------------------------------------------------------

func atomicCallOn(ins ssa.Instruction, vf *vmFacts, field int, names ...string) bool {
	ci, ok := ins.(ssa.CallInstruction)
	if !ok {
		return false
	}
	f := ci.Common().StaticCallee()
	if f == nil || f.Pkg == nil || f.Pkg.Pkg.Path() != "sync/atomic" || len(ci.Common().Args) == 0 {
		return false
	}
	okName := false
	for _, n := range names {
		if f.Name() == n {
			okName = true
		}
	}
	if !okName {
		return false
	}
	fa, ok := vf.isVMFieldAddr(ci.Common().Args[0])
	return ok && fa.Field == field
}

func propC09(c *Ctx) {
	l := c.L
	rp := c.Rule("poll", "the dispatch loop's condition performs an atomic load of the abort flag on every iteration", 1)
	vf := getVMFacts(c, rp)
	if vf == nil {
		return
	}
	fAbort := vf.field("abort")
	if !c.Anchor(rp, "VM.abort", fAbort >= 0) {
		return
	}
	defer func() {
		rlf := c.Rule("lock-first", "a method of VM that takes the VM's mutex writes the VM's state (the abort flag included) only after the Lock call: a queued Run never erases an Abort aimed at the run in progress", 3)
		ruleLockFirst(c, rlf, vf)
		rao := c.Rule("aborted-own", "Aborted reports the abort flag of the VM it is called on, not another VM's", 1)
		ruleAbortedOwn(c, rao, vf)
		rce := c.Rule("callback-err", "the variable in which a library callback records an abort / error of the script function is local to the call: an aborted run leaves nothing behind that fails later calls", 1)
		ruleCallbackErr(c, rce)
	}()
	// poll: an atomic Load of abort in a block that lies on a cycle and dominates the dispatch
	{
		found := false
		var pos token.Pos
		// functions that always perform the atomic load (vm.Aborted() and the like)
		loadsFlag := map[*ssa.Function]bool{}
		for _, f := range l.RepoFuncs(func(pp string) bool { return pp == modPath }) {
			if len(f.Blocks) == 1 {
				eachInstr(f, func(x ssa.Instruction) {
					if atomicCallOn(x, vf, fAbort, "Load") {
						loadsFlag[f] = true
					}
				})
			}
		}
		eachInstr(vf.loop, func(ins ssa.Instruction) {
			isPoll := atomicCallOn(ins, vf, fAbort, "Load")
			if ci, ok := ins.(ssa.CallInstruction); ok && loadsFlag[ci.Common().StaticCallee()] {
				isPoll = true
			}
			if !isPoll {
				return
			}
			b := ins.Block()
			onCycle := false
			for _, s := range b.Succs {
				if blockReaches(s, b) {
					onCycle = true
				}
			}
			// the load decides the branch that ends the block
			if iff, ok := b.Instrs[len(b.Instrs)-1].(*ssa.If); ok && onCycle {
				if derivesFrom(iff.Cond, func(v ssa.Value) bool { return v == ins.(ssa.Value) }, 3) {
					// the test must come before EVERY instruction dispatch: its block dominates the
					// block that reads the opcode (curInsts[ip]) for the dispatch switch
					domAll := true
					fCur := vf.field("curInsts")
					eachInstr(vf.loop, func(x ssa.Instruction) {
						ia, ok := x.(*ssa.IndexAddr)
						if !ok {
							return
						}
						u, ok := ia.X.(*ssa.UnOp)
						if !ok {
							return
						}
						fa, ok := vf.isVMFieldAddr(u.X)
						if !ok || fa.Field != fCur {
							return
						}
						// the opcode read: index is exactly vm.ip (no +k)
						if iu, ok := ia.Index.(*ssa.UnOp); ok {
							if ifa, ok := vf.isVMFieldAddr(iu.X); ok && ifa.Field == vf.field("ip") {
								if !b.Dominates(x.Block()) {
									domAll = false
								}
							}
						}
					})
					if domAll {
						found, pos = true, ins.Pos()
					}
				}
			}
		})
		c.Check(rp, "dispatch loop condition", l.Pos(pos), found, "atomic load of the abort flag decides the loop condition", "the dispatch loop does not test the abort flag on every iteration: an abort is not noticed within a bounded number of instructions")
	}

	ra := c.Rule("abort-prop", "Abort stores the flag and reaches the child pool on EVERY call (no early return: a child registered after an earlier Abort must still be reached by a later one), and the pool's abort visits every registered child", 2)
	pf := getPoolFacts(c, ra, vf)
	abortM := l.Method(modPath, "VM", "Abort")
	if pf != nil && c.Anchor(ra, "VM.Abort", abortM != nil) {
		first := abortM.Blocks[0].Instrs[0]
		storesFlag := func(ins ssa.Instruction) bool {
			return atomicCallOn(ins, vf, fAbort, "Store", "Swap", "CompareAndSwap")
		}
		callsPool := callTo(func(f *ssa.Function) bool { return f == pf.abort })
		_, ok1 := mustPassBefore(first, storesFlag, isReturn)
		_, ok2 := mustPassBefore(first, callsPool, isReturn)
		if storesFlag(first) {
			ok1 = true
		}
		if callsPool(first) {
			ok2 = true
		}
		c.Check(ra, "VM.Abort", l.Pos(abortM.Pos()), ok1 && ok2, "stores the flag and aborts the pool on every path",
			fmt.Sprintf("a path through Abort returns without storing the flag (%v) or without aborting the child pool (%v): an Abort issued after an earlier one never reaches a child VM started in between", !ok1, !ok2))
		// pool abort ranges over vms and calls Abort on the key
		ranged := false
		eachInstrDeep(pf.abort, 2, func(ins ssa.Instruction) {
			if rg, ok := ins.(*ssa.Range); ok {
				if u, ok := rg.X.(*ssa.UnOp); ok {
					if _, ok := isFieldAddrOf(u.X, modPath, "vmPool", pf.fVMs); ok {
						ranged = true
					}
				}
			}
		})
		c.Check(ra, "vmPool abort visits every child", l.Pos(pf.abort.Pos()), ranged, "ranges over the registered children", "the pool's abort does not range over the registered children")
	}

	rra := c.Rule("register-all", "every child VM that the pool hands out is registered in the pool's map on every path (Abort reaches children only through that map)", 2)
	if pf != nil {
		ruleRegisterAll(c, rra, pf)
	}

	// ---- pool-lock ---------------------------------------------------------------------------------
	rl := c.Rule("pool-lock", "every access to the pool's registry of child VMs happens after mu.Lock() of the same pool with no Unlock in between (Abort runs on another goroutine than acquire/release)", 4)
	if pf != nil {
		rulePoolLock(c, rl, pf)
	}

	// ---- no-entry-clear -------------------------------------------------------------------------------
	rn := c.Rule("no-entry-clear", "no path from Run's entry to the dispatch loop stores to the abort flag: an Abort that lands between the entry and such a store is erased (Eval.run and cmd/ugo start Run on a new goroutine and may call Abort before that goroutine reaches the store)", 1)
	{
		callsRun := callTo(func(f *ssa.Function) bool { return f == vf.run })
		entry := vf.Run.Blocks[0].Instrs[0]
		// search for a store reachable before the loop call
		var offending ssa.Instruction
		seen := map[*ssa.BasicBlock]bool{}
		var walk func(b *ssa.BasicBlock, idx int) bool
		walk = func(b *ssa.BasicBlock, idx int) bool {
			for i := idx; i < len(b.Instrs); i++ {
				ins := b.Instrs[i]
				if callsRun(ins) {
					return false
				}
				if atomicCallOn(ins, vf, fAbort, "Store", "Swap", "CompareAndSwap") {
					offending = ins
					return true
				}
			}
			for _, s := range b.Succs {
				if !seen[s] {
					seen[s] = true
					if walk(s, 0) {
						return true
					}
				}
			}
			return false
		}
		walk(entry.Block(), 0)
		pos := l.Pos(vf.Run.Pos())
		if offending != nil {
			pos = l.Pos(offending.Pos())
		}
		if offending != nil {
			rpc := c.Rule("ctx-precheck", "while Run clears the abort flag at entry, every goroutine that starts VM.Run under a context is preceded by a non-blocking test of ctx.Done() (a cancellation already pending when the goroutine starts would otherwise be erased)", 1)
			ruleCtxPrecheck(c, rpc, vf)
		}
		c.Check(rn, "VM.Run prologue", pos, offending == nil, "the prologue does not touch the abort flag", "Run stores to the abort flag before entering the loop: an Abort between Run's entry and this store is lost and the script never stops")
	}

	// ---- child-start-check -------------------------------------------------------------------------------
	rcs := c.Rule("child-start-check", "Invoke tests the ROOT VM's abort flag after the child was registered and before it starts the child run (an abort that visited the pool before the registration is otherwise never seen by the child, whose own flag Run resets anyway)", 1)
	invoke := l.Method(modPath, "Invoker", "Invoke")
	fInvVM, _ := l.invokerVMFields()
	aborted := l.Method(modPath, "VM", "Aborted")
	if c.Anchor(rcs, "Invoker.Invoke / Invoker.vm / VM.Aborted", invoke != nil && fInvVM >= 0 && aborted != nil) {
		eachInstr(invoke, func(ins ssa.Instruction) {
			ci, ok := ins.(ssa.CallInstruction)
			if !ok || ci.Common().StaticCallee() != vf.Run {
				return
			}
			good := false
			for _, g := range guardEdges(ci.Block()) {
				cl, ok := g.If.Cond.(*ssa.Call)
				if !ok || cl.Call.StaticCallee() != aborted || g.Truth {
					continue
				}
				if u, ok := cl.Call.Args[0].(*ssa.UnOp); ok {
					if _, isRoot := isFieldAddrOf(u.X, modPath, "Invoker", fInvVM); isRoot {
						good = true
					}
				}
			}
			anyTest := false
			for _, g := range guardEdges(ci.Block()) {
				if cl, ok := g.If.Cond.(*ssa.Call); ok && cl.Call.StaticCallee() == aborted && !g.Truth {
					anyTest = true
				}
			}
			c.Check(rcs, "Invoker.Invoke | some abort test precedes child.Run", l.Pos(ci.Pos()), anyTest, "an Aborted() test dominates the start of the child run", "the child run is started without any abort test: an Abort delivered between two Invoke calls of one invoker (while the Go callback runs Go code) is wiped by the child's reset and an endless callee never returns")
			c.Check(rcs, "Invoker.Invoke | child.Run", l.Pos(ci.Pos()), good, "dominated by !inv.vm.Aborted()", "the child run is started after testing only the child's own flag (which Run clears at entry): an Abort of the root that ran before the child was registered is lost")
		})
	}

	// ---- pool-zero (an aborted pooled VM must not poison later runs) ------------------------------------
	rz := c.Rule("pool-zero", "every path that returns a child VM to the sync.Pool resets every VM field including the abort flag: otherwise a VM released while aborted makes a later, unrelated Invoke fail with VMAbortedError", 1)
	if pf != nil {
		rulePoolZero(c, rz, vf, pf)
	}

	// ---- ctx-abort ---------------------------------------------------------------------------------------------
	if pf != nil {
		rps := c.Rule("pool-symmetric", "child VMs are registered on and unregistered from the same pool (the root VM's): Abort reaches children only through that registry, and a stale entry aborts whoever holds the pooled VM next", 1)
		rulePoolSymmetric(c, rps, pf)
		ruc := c.Rule("unregister-clears", "a method of Invoker that removes its child VM from the registry Abort walks also clears its reference to the child on every path", 1)
		ruleUnregisterClears(c, ruc, pf)
	}
	rfci := c.Rule("frame-claim-init", "the call routine stores every field of a call frame it claims (an aborted run leaves its frames as they were; the next run must not inherit their error handlers)", 3)
	ruleFrameClaimInit(c, rfci, vf)
	rasl := c.Rule("abort-store-loop", "no store to the abort flag lies inside the loop of Run that re-enters the dispatch loop after a recovered panic", 1)
	ruleAbortStoreLoop(c, rasl, vf, fAbort)
	rcv := c.Rule("call-vm", "every Call value built by a method of VM or Invoker carries the VM, so a Go callee reached through it can observe Abort", 3)
	ruleCallVM(c, rcv)

	rx := c.Rule("ctx-abort", "every select arm on ctx.Done() in the functions that run a VM under a context calls Abort, and when the run was already started on a goroutine it then waits for the run's completion channel", 2)
	ruleCtxAbort(c, rx, vf, abortM)

	// ---- callback-poll -----------------------------------------------------------------------------------------
	rcb := c.Rule("callback-poll", "library callbacks that sleep in a loop test Aborted() each round", 1)
	for _, fn := range l.RepoFuncs(func(pp string) bool { return strings.HasPrefix(pp, modPath+"/stdlib") }) {
		eachInstr(fn, func(ins ssa.Instruction) {
			ci, ok := ins.(ssa.CallInstruction)
			if !ok {
				return
			}
			f := ci.Common().StaticCallee()
			if f == nil || f.Pkg == nil || f.Pkg.Pkg.Path() != "time" || f.Name() != "Sleep" {
				return
			}
			b := ins.Block()
			inLoop := false
			for _, s := range b.Succs {
				if blockReaches(s, b) {
					inLoop = true
				}
			}
			if !inLoop {
				return
			}
			// the loop body (blocks on the cycle through b) must call Aborted
			polls := false
			for _, x := range fn.Blocks {
				if blockReaches(b, x) && blockReaches(x, b) {
					for _, i2 := range x.Instrs {
						if c2, ok := i2.(ssa.CallInstruction); ok && c2.Common().StaticCallee() == aborted {
							polls = true
						}
					}
				}
			}
			c.Check(rcb, fnName(fn)+" | time.Sleep in a loop", l.Pos(ins.Pos()), polls, "the loop tests Aborted()", "a sleeping loop never tests the abort flag: Abort does not stop the callback")
		})
		// once the abort flag was seen set, the callback does not sleep again: no
		// time.Sleep is reachable from the "aborted" outcome of an Aborted() test
		for _, b := range fn.Blocks {
			if len(b.Instrs) == 0 {
				continue
			}
			iff, ok := b.Instrs[len(b.Instrs)-1].(*ssa.If)
			if !ok {
				continue
			}
			cl, ok := iff.Cond.(*ssa.Call)
			if !ok || cl.Call.StaticCallee() != aborted {
				continue
			}
			first := b.Succs[0].Instrs[0]
			isSleep := func(x ssa.Instruction) bool {
				ci, ok := x.(ssa.CallInstruction)
				if !ok {
					return false
				}
				f := ci.Common().StaticCallee()
				return f != nil && f.Pkg != nil && f.Pkg.Pkg.Path() == "time" && f.Name() == "Sleep"
			}
			bad, unreachable := mustPassBefore(first, isReturn, isSleep)
			if isSleep(first) {
				bad, unreachable = first, false
			}
			where := ""
			if bad != nil {
				where = l.Pos(bad.Pos())
			}
			c.Check(rcb, fnName(fn)+" | after the abort flag was seen", l.Pos(iff.Pos()), unreachable, "the function returns without sleeping again",
				"after Aborted() returned true the callback can still reach time.Sleep (at "+where+"): the abort is honoured only after the remaining duration has been slept (a 24 h sleep cannot be aborted for a day)")
		}
	}
}

func rulePoolLock(c *Ctx, rule string, pf *poolFacts) {
	l := c.L
	// the pool's abort calls Abort on each registered child WHILE it holds the
	// registry lock: between an unlock and the call, the child can be released to
	// the sync.Pool and handed to another root VM, whose callback is then aborted
	if abortM := l.Method(modPath, "VM", "Abort"); abortM != nil && pf.abort != nil {
		eachInstrDeep(pf.abort, 1, func(ins ssa.Instruction) {
			ci, ok := ins.(ssa.CallInstruction)
			if !ok || ci.Common().StaticCallee() != abortM {
				return
			}
			fn := ins.Parent()
			if !l.poolDomain()[fn] || len(fn.Params) == 0 {
				return
			}
			locked := poolLockedAt(l, pf, fn, fn.Params[0], ins, 0)
			c.Check(rule, fnName(fn)+" | Abort of a registered child", l.Pos(ins.Pos()), locked, "called while the registry lock is held",
				"the pool aborts a registered child after releasing the registry lock: in between the child can be released to the sync.Pool and acquired by ANOTHER root VM, whose callback is then aborted although that VM never was")
		})
	}
	for _, fn := range l.RepoFuncs(func(pp string) bool { return pp == modPath }) {
		for _, acc := range fieldAccesses([]*ssa.Function{fn}, modPath, "vmPool", pf.fVMs) {
			if acc.Addr == nil {
				continue
			}
			if acc.Instr != (*acc.Addr.Referrers())[0] {
				continue
			}
			// a pool value constructed in place (composite literal) is not shared yet
			if _, fresh := acc.Addr.X.(*ssa.Alloc); fresh {
				continue
			}
			locked := poolLockedAt(l, pf, fn, acc.Addr.X, acc.Addr, 0)
			key := fmt.Sprintf("%s | %s.vms", fnName(fn), describe(acc.Addr.X))
			c.Check(rule, key, l.Pos(acc.Addr.Pos()), locked, "accessed under the pool's mutex", "the registry of child VMs is accessed without holding the pool's mutex: data race with Abort / acquire / release on other goroutines")
		}
	}
}

// ruleCtxAbort: select arms on ctx.Done().
func ruleCtxAbort(c *Ctx, rule string, vf *vmFacts, abortM *ssa.Function) {
	l := c.L
	for _, fn := range l.RepoFuncs(func(pp string) bool { return pp == modPath || pp == modPath+"/cmd/ugo" }) {
		eachInstr(fn, func(ins ssa.Instruction) {
			sel, ok := ins.(*ssa.Select)
			if !ok {
				return
			}
			for si, st := range sel.States {
				if st.Dir != types.RecvOnly {
					continue
				}
				cl, ok := st.Chan.(*ssa.Call)
				if !ok || !cl.Call.IsInvoke() || cl.Call.Method.Name() != "Done" {
					continue
				}
				// does this function (or its parents) run a VM at all?
				runsVM := false
				top := fn
				for top.Parent() != nil {
					top = top.Parent()
				}
				visit := []*ssa.Function{top}
				visit = append(visit, top.AnonFuncs...)
				for _, g := range visit {
					eachInstr(g, func(x ssa.Instruction) {
						if ci, ok := x.(ssa.CallInstruction); ok && ci.Common().StaticCallee() == vf.Run {
							runsVM = true
						}
					})
				}
				if !runsVM {
					continue
				}
				// the arm: blocks dominated by the true edge of (index == si)
				var arm *ssa.BasicBlock
				for _, b := range fn.Blocks {
					for _, g := range guardEdges(b) {
						bo, ok := g.If.Cond.(*ssa.BinOp)
						if !ok || bo.Op != token.EQL || !g.Truth {
							continue
						}
						ex, ok := bo.X.(*ssa.Extract)
						if !ok || ex.Tuple != ssa.Value(sel) || ex.Index != 0 {
							continue
						}
						if k, ok := constInt64(bo.Y); ok && int(k) == si {
							if arm == nil || b.Dominates(arm) {
								arm = b
							}
						}
					}
				}
				key := fmt.Sprintf("%s | select case <-ctx.Done()", fnName(fn))
				if arm == nil {
					c.Und(rule, key, l.Pos(sel.Pos()), "cannot locate the arm of the ctx.Done() case")
					continue
				}
				goStarted := false
				eachInstr(fn, func(x ssa.Instruction) {
					if g, ok := x.(*ssa.Go); ok && instrDominates(g, sel) {
						goStarted = true
					}
				})
				var abortCall ssa.Instruction
				waits := false
				for _, b := range fn.Blocks {
					if b != arm && !arm.Dominates(b) {
						continue
					}
					for _, x := range b.Instrs {
						if ci, ok := x.(ssa.CallInstruction); ok && ci.Common().StaticCallee() == abortM {
							abortCall = x
						}
						if u, ok := x.(*ssa.UnOp); ok && u.Op == token.ARROW && abortCall != nil {
							waits = true
						}
						if s2, ok := x.(*ssa.Select); ok && s2 != sel && abortCall != nil {
							waits = true
						}
					}
				}
				good := abortCall != nil && (!goStarted || waits)
				c.Check(rule, key, l.Pos(sel.Pos()), good, fmt.Sprintf("arm calls Abort (run in flight: %v, waits for completion: %v)", goStarted, waits),
					fmt.Sprintf("the ctx.Done() arm does not abort the VM (%v) or returns without waiting for the started run (%v): cancellation is lost or the result is read while the run is still writing it", abortCall == nil, goStarted && !waits))
			}
		})
	}
}

// poolLockedAt: the mutex of the pool value `base` is held when instruction
// `at` of fn executes: a Lock on base.mu dominates it with no Unlock between;
// or, for a helper whose call sites are all known (unexported, never used as a
// value), base is a parameter and every call site passes a pool whose mutex is
// held there (the caller-holds-the-lock convention).
func poolLockedAt(l *Loaded, pf *poolFacts, fn *ssa.Function, base ssa.Value, at ssa.Instruction, depth int) bool {
	locked := false
	eachInstr(fn, func(ins ssa.Instruction) {
		cl, ok := ins.(*ssa.Call)
		if !ok {
			return
		}
		f := cl.Call.StaticCallee()
		if f == nil || f.Name() != "Lock" || f.Pkg == nil || f.Pkg.Pkg.Path() != "sync" {
			return
		}
		mfa, ok := isFieldAddrOf(cl.Call.Args[0], modPath, "vmPool", pf.fMu)
		if !ok || !(mfa.X == base || sameMem(mfa.X, base)) {
			return
		}
		if !instrDominates(cl, at) {
			return
		}
		// no explicit Unlock between
		unlocked := false
		eachInstr(fn, func(u ssa.Instruction) {
			uc, ok := u.(*ssa.Call)
			if !ok {
				return
			}
			uf := uc.Call.StaticCallee()
			if uf != nil && uf.Name() == "Unlock" && uf.Pkg != nil && uf.Pkg.Pkg.Path() == "sync" && instrDominates(cl, uc) && instrDominates(uc, at) {
				unlocked = true
			}
		})
		if !unlocked {
			locked = true
		}
	})
	if locked || depth >= 3 {
		return locked
	}
	// a function literal that captures the pool and is handed, at its only use,
	// to a method of that same pool which calls it only while holding the lock
	// (v.each(func(vm *VM) { delete(v.vms, vm) }))
	freeOf := func(v ssa.Value) (*ssa.FreeVar, bool) {
		if fv, ok := v.(*ssa.FreeVar); ok {
			return fv, true
		}
		if ld, ok := v.(*ssa.UnOp); ok && ld.Op == token.MUL { // the variable is captured by reference
			if fv, ok := ld.X.(*ssa.FreeVar); ok {
				return fv, true
			}
		}
		return nil, false
	}
	if fv, isFree := freeOf(base); isFree && fn.Parent() != nil {
		idx := -1
		for k, q := range fn.FreeVars {
			if q == fv {
				idx = k
			}
		}
		okAll, uses := idx >= 0, 0
		eachInstr(fn.Parent(), func(ins ssa.Instruction) {
			mc, ok := ins.(*ssa.MakeClosure)
			if !ok || mc.Fn != ssa.Value(fn) {
				return
			}
			bound := mc.Bindings[idx]
			if mc.Referrers() == nil {
				okAll = false
				return
			}
			for _, r := range *mc.Referrers() {
				if _, isDbg := r.(*ssa.DebugRef); isDbg {
					continue
				}
				uses++
				cl, ok := r.(*ssa.Call)
				if !ok {
					okAll = false
					continue
				}
				g := cl.Call.StaticCallee()
				if g == nil || len(g.Blocks) == 0 || len(cl.Call.Args) == 0 || len(g.Params) != len(cl.Call.Args) {
					okAll = false
					continue
				}
				// the closure is argument j; the receiver (argument 0) is the captured pool
				j := -1
				for k, a := range cl.Call.Args {
					if a == ssa.Value(mc) {
						j = k
					}
				}
				recvIsPool := cl.Call.Args[0] == bound || sameMem(cl.Call.Args[0], bound)
				if ld, ok := cl.Call.Args[0].(*ssa.UnOp); ok && ld.Op == token.MUL && ld.X == bound {
					recvIsPool = true // the receiver is read from the captured cell
				}
				if ld, ok := bound.(*ssa.UnOp); ok && !recvIsPool {
					// the captured variable is a cell holding the receiver
					if al, ok := ld.X.(*ssa.Alloc); ok && al.Referrers() != nil {
						for _, rr := range *al.Referrers() {
							if st, ok := rr.(*ssa.Store); ok && st.Val == cl.Call.Args[0] {
								recvIsPool = true
							}
						}
					}
				}
				if al, ok := bound.(*ssa.Alloc); ok && !recvIsPool && al.Referrers() != nil {
					for _, rr := range *al.Referrers() {
						if st, ok := rr.(*ssa.Store); ok && st.Val == cl.Call.Args[0] {
							recvIsPool = true
						}
					}
				}
				if j <= 0 || !recvIsPool {
					okAll = false
					continue
				}
				// every dynamic call of parameter j inside g happens under g's receiver's lock
				calls := 0
				eachInstr(g, func(x ssa.Instruction) {
					ci, ok := x.(ssa.CallInstruction)
					if !ok || ci.Common().Value != ssa.Value(g.Params[j]) {
						return
					}
					calls++
					if !poolLockedAt(l, pf, g, g.Params[0], x, depth+1) {
						okAll = false
					}
				})
				// the parameter must not escape g in any other way
				if g.Params[j].Referrers() != nil {
					for _, pr := range *g.Params[j].Referrers() {
						if _, isDbg := pr.(*ssa.DebugRef); isDbg {
							continue
						}
						if ci, ok := pr.(ssa.CallInstruction); !ok || ci.Common().Value != ssa.Value(g.Params[j]) {
							okAll = false
						}
					}
				}
				if calls == 0 {
					okAll = false
				}
			}
		})
		return okAll && uses > 0
	}
	p, ok := base.(*ssa.Parameter)
	if !ok || fn.Parent() != nil || l.AddressTaken(fn) || l.mayBeInvoked(fn) {
		return false
	}
	idx := -1
	for k, q := range fn.Params {
		if q == p {
			idx = k
		}
	}
	cs := l.RealCallers(fn)
	if idx < 0 || len(cs) == 0 {
		return false
	}
	for _, ci := range cs {
		if _, isGo := ci.(*ssa.Go); isGo {
			return false
		}
		if _, isDefer := ci.(*ssa.Defer); isDefer {
			return false
		}
		if !poolLockedAt(l, pf, ci.Parent(), ci.Common().Args[idx], ci, depth+1) {
			return false
		}
	}
	return true
}
