package main

import (
	"fmt"
	"go/constant"
	"go/token"
	"go/types"
	"math"
	"sort"

	"golang.org/x/tools/go/ssa"
)

func init() {
	props["C17"] = propC17
	props["C02"] = propC02
}

const jsonPath = modPath + "/stdlib/json"

func propC17(c *Ctx) {
	l := c.L
	defer func() {
		rjd := c.Rule("json-depth", "every growth of the scanner's nesting stack is followed by the maximum-depth test (encoding/json refuses documents nested deeper than 10000; so must Valid and Unmarshal)", 1)
		ruleJSONDepth(c, rjd)
		ran := c.Rule("array-nonnil", "the decoder builds arrays on a non-nil empty Array (an empty JSON array must marshal back as [] and not as null)", 1)
		ruleArrayNonNil(c, ran)
		rsa := c.Rule("scanner-agree", "every state function of the validating scanner has, for each of the 256 byte values, the effects and the result of the state function of the same name in encoding/json (abstract interpretation of both over the powerset of byte values; conditions on other state are opaque, named branches)", 30)
		rta := c.Rule("table-agree", "the character class tables of the encoder (safeSet, htmlSafeSet) equal encoding/json's entry by entry", 2)
		ruleScannerAgree(c, rsa, rta)
		rea := c.Rule("escape-agree", "the string writers of the encoder append, for each of the 128 ASCII byte values, the bytes encoding/json's appendString appends (abstract interpretation of the escape block of both)", 2)
		ruleEscapeAgree(c, rea)
		rmv := c.Rule("marshaler-validated", "the bytes a value's MarshalJSON returns reach the output only through the validating copy", 1)
		ruleMarshalerValidated(c, rmv)
		rjn := c.Rule("json-value-nonnil", "no Object-valued function of the json decoder returns a nil Object with a nil error: Unmarshal returns uGO values all the way down", 5)
		ruleJSONValueNonNil(c, rjn)
		res := c.Rule("enc-sign", "no encoder of the json package changes the signedness of a 64-bit integer on its way to strconv (uint values above 2^63 keep their value)", 1)
		ruleEncSign(c, res)
		rse := c.Rule("strconv-err", "every strconv parsing call of the json package uses its error result: an out-of-range number is reported as encoding/json reports it", 1)
		ruleStrconvErr(c, rse)
		rpr := c.Rule("pool-reset", "a value the json package recycles through a sync.Pool is fully reset on every path, the error paths included: the partial output of a failed Marshal never starts the next document", 0)
		rulePoolReset(c, rpr, func(pp string) bool { return pp == jsonPath })
	}()
	rw := c.Rule("enc-write", "every encoder that the type dispatch can return either writes to the encode state or aborts through the error helper on every path: an encoder that writes nothing produces a malformed document inside a container ({\"a\":,\"b\":1})", 10)
	disp := l.Func(jsonPath, "objectEncoder")
	esT := l.NamedType(jsonPath, "encodeState")
	if !c.Anchor(rw, "json.objectEncoder / json.encodeState", disp != nil && esT != nil) {
		return
	}
	encs := map[*ssa.Function]bool{}
	for _, b := range disp.Blocks {
		if ret, ok := b.Instrs[len(b.Instrs)-1].(*ssa.Return); ok {
			for _, r := range ret.Results {
				var walk func(v ssa.Value, d int)
				walk = func(v ssa.Value, d int) {
					if d > 4 {
						return
					}
					switch x := v.(type) {
					case *ssa.Function:
						encs[x] = true
					case *ssa.ChangeType:
						walk(x.X, d+1)
					case *ssa.MakeClosure:
						walk(x.Fn, d+1)
					case *ssa.Phi:
						for _, e := range x.Edges {
							walk(e, d+1)
						}
					}
				}
				walk(r, 0)
			}
		}
	}
	for _, fn := range sortedFuncs(encs) {
		if len(fn.Params) == 0 || len(fn.Blocks) == 0 {
			continue
		}
		e := fn.Params[0]
		uses := func(ins ssa.Instruction) bool {
			ci, ok := ins.(ssa.CallInstruction)
			if !ok {
				return false
			}
			if _, isDefer := ins.(*ssa.Defer); isDefer {
				return false
			}
			cm := ci.Common()
			for _, a := range cm.Args {
				if derivesFrom(a, func(v ssa.Value) bool { return v == ssa.Value(e) }, 4) {
					return true
				}
			}
			if cm.IsInvoke() && derivesFrom(cm.Value, func(v ssa.Value) bool { return v == ssa.Value(e) }, 4) {
				return true
			}
			return false
		}
		first := fn.Blocks[0].Instrs[0]
		ok := uses(first)
		if !ok {
			_, ok = mustPassBefore(first, uses, isReturn)
		}
		c.Check(rw, fnName(fn), l.Pos(fn.Pos()), ok, "every path writes to (or aborts through) the encode state", "a path through this encoder returns without touching the encode state: Marshal emits nothing for the value and, inside an array or map, a syntactically invalid document")
	}

	// ---- float-finite --------------------------------------------------------------------------
	rf := c.Rule("float-finite", "the float encoder formats a number only after excluding +Inf, -Inf and NaN on every path (JSON has no representation for them; the error helper must be reached instead)", 1)
	n := 0
	for _, fn := range l.RepoFuncs(func(pp string) bool { return pp == jsonPath }) {
		eachInstr(fn, func(ins ssa.Instruction) {
			cl, ok := ins.(*ssa.Call)
			if !ok {
				return
			}
			f := cl.Call.StaticCallee()
			if f == nil || f.Pkg == nil || f.Pkg.Pkg.Path() != "strconv" || f.Name() != "AppendFloat" {
				return
			}
			// only where the result is written as a JSON number by an encoder
			if !encs[fn] {
				return
			}
			n++
			x := cl.Call.Args[1]
			pos, neg, nan := false, false, false
			for _, g := range guardEdges(cl.Block()) {
				switch cnd := g.If.Cond.(type) {
				case *ssa.Call:
					cf := cnd.Call.StaticCallee()
					if cf == nil || cf.Pkg == nil || cf.Pkg.Pkg.Path() != "math" || g.Truth || !exprEq(cnd.Call.Args[0], x) {
						continue
					}
					switch cf.Name() {
					case "IsNaN":
						nan = true
					case "IsInf":
						if k, ok := constInt64(cnd.Call.Args[1]); ok {
							if k >= 0 {
								pos = true
							}
							if k <= 0 {
								neg = true
							}
						}
					}
				case *ssa.BinOp:
					op := cnd.Op
					a, b := cnd.X, cnd.Y
					if !g.Truth {
						op = negOp(op)
					}
					if exprEq(b, x) {
						a, b = b, a
						op = flipOp(op)
					} else if !exprEq(a, x) {
						continue
					}
					if op == token.EQL && exprEq(b, x) {
						nan = true // x == x holds
					}
					if cst, ok := b.(*ssa.Const); ok && cst.Value != nil && cst.Value.Kind() == constant.Float {
						fv, _ := constant.Float64Val(cst.Value)
						if (op == token.LEQ || op == token.LSS) && fv <= math.MaxFloat64 && fv > 0 {
							pos = true
						}
						if (op == token.GEQ || op == token.GTR) && fv >= -math.MaxFloat64 && fv < 0 {
							neg = true
						}
					}
				}
			}
			c.Check(rf, fnName(fn)+" | strconv.AppendFloat", l.Pos(cl.Pos()), pos && neg && nan, "+Inf, -Inf and NaN are excluded before formatting",
				fmt.Sprintf("a non-finite float reaches the formatter (excluded: +Inf %v, -Inf %v, NaN %v): Marshal returns nil error with output such as [1,-Inf]", pos, neg, nan))
		})
	}
	if n == 0 {
		c.Und(rf, "float encoder", "-", "no encoder calling strconv.AppendFloat found")
	}

	// ---- unmarshal-valid ---------------------------------------------------------------------------
	ru := c.Rule("unmarshal-valid", "Unmarshal decodes only input that the validating scanner accepted: the decoding calls are dominated by the nil-error outcome of checkValid (the decoder panics on input that was not validated)", 1)
	um := l.Func(jsonPath, "Unmarshal")
	cv := l.Func(jsonPath, "checkValid")
	if c.Anchor(ru, "json.Unmarshal / json.checkValid", um != nil && cv != nil) {
		var chk *ssa.Call
		eachInstr(um, func(ins ssa.Instruction) {
			if cl, ok := ins.(*ssa.Call); ok && cl.Call.StaticCallee() == cv {
				chk = cl
			}
		})
		good := chk != nil
		nd := 0
		if good {
			eachInstr(um, func(ins ssa.Instruction) {
				cl, ok := ins.(*ssa.Call)
				if !ok {
					return
				}
				f := cl.Call.StaticCallee()
				if f == nil || f.Signature.Recv() == nil || !isNamed(f.Signature.Recv().Type(), jsonPath, "decodeState") {
					return
				}
				// methods that read the input: those reachable after validation
				if !instrDominates(chk, cl) {
					return // set-up before validation (init)
				}
				nd++
				okSide := false
				for _, g := range guardEdges(cl.Block()) {
					bo, ok := g.If.Cond.(*ssa.BinOp)
					if !ok {
						continue
					}
					if (bo.X == ssa.Value(chk) || bo.Y == ssa.Value(chk)) && ((bo.Op == token.NEQ && !g.Truth) || (bo.Op == token.EQL && g.Truth)) {
						okSide = true
					}
				}
				if !okSide {
					good = false
				}
			})
		}
		c.Check(ru, "json.Unmarshal", l.Pos(um.Pos()), good && nd > 0, fmt.Sprintf("%d decoding call(s) on the validated side", nd), "the decoder runs on input that did not pass checkValid (or no validation call exists): malformed documents panic or are accepted")
	}

	// ---- marshal-recover -------------------------------------------------------------------------------
	rm := c.Rule("marshal-recover", "the encoder's entry recovers exactly its own error wrapper and re-panics anything else", 1)
	ms := l.Method(jsonPath, "encodeState", "marshal")
	if c.Anchor(rm, "json.encodeState.marshal", ms != nil) {
		rb := findRecoverBarriers(l)[ms]
		good := rb != nil && !rb.all && len(rb.swallows) == 1 && isNamed(rb.swallows[0], jsonPath, "jsonError")
		c.Check(rm, "encodeState.marshal", l.Pos(ms.Pos()), good, "deferred recover asserts jsonError and re-panics others", "the encoder's recover does not single out its own jsonError values")
	}

	rjp := c.Rule("json-panic-typed", "every explicit panic on the encoding path carries the jsonError wrapper that Marshal's recover converts into an error", 1)
	ruleJSONPanicTyped(c, rjp)

	// ---- enc-dispatch (informational) ---------------------------------------------------------------------
	var names []string
	for fn := range encs {
		names = append(names, fn.Name())
	}
	sort.Strings(names)
	c.extra["encoders_returned_by_dispatch"] = names
}

// ---- C02: tail-call fast path ---------------------------------------------------------------------------

func propC02(c *Ctx) {
	l := c.L
	rt := c.Rule("tailcall", "the frame-reusing fast path of a compiled call is taken only for a call of the very function of the current frame whose NEXT instruction is RETURN (so the callee's value is what the caller returns), resets the locals beyond the parameters like a fresh frame does, and clears the frame's error handlers", 3)
	vf := getVMFacts(c, rt)
	if vf == nil {
		return
	}
	// the compiled-call routine: the VM method that stores frames[frameIndex] (claims a frame)
	// and also has a path that stores ip without doing so
	fIP, fFrameIdx, fCurInsts := vf.field("ip"), vf.field("frameIndex"), vf.field("curInsts")
	opReturn, okR := constOf(l, modPath, "OpReturn")
	if !c.Anchor(rt, "VM.ip / VM.frameIndex / VM.curInsts / OpReturn", fIP >= 0 && fFrameIdx >= 0 && fCurInsts >= 0 && okR) {
		return
	}
	// stores (directly or in a helper called from there) of a VM field
	storesDeep := func(field int) func(ssa.Instruction) bool {
		direct := func(x ssa.Instruction) bool {
			s2, ok := x.(*ssa.Store)
			if !ok {
				return false
			}
			fa2, ok := vf.isVMFieldAddr(s2.Addr)
			return ok && fa2.Field == field
		}
		memo := map[*ssa.Function]bool{}
		return func(x ssa.Instruction) bool {
			if direct(x) {
				return true
			}
			cl, ok := x.(*ssa.Call)
			if !ok {
				return false
			}
			g := cl.Call.StaticCallee()
			if g == nil || len(g.Blocks) == 0 || funcPkgPath(g) != modPath {
				return false
			}
			if r, ok := memo[g]; ok {
				return r
			}
			found := false
			eachInstrDeep(g, 2, func(y ssa.Instruction) {
				if direct(y) {
					found = true
				}
			})
			memo[g] = found
			return found
		}
	}
	storesFI, storesIP := storesDeep(fFrameIdx), storesDeep(fIP)
	var callFn *ssa.Function
	var cands []*ssa.Function
	for _, fn := range vf.reachFns {
		hasFI, hasIP := false, false
		eachInstr(fn, func(ins ssa.Instruction) {
			if storesFI(ins) {
				hasFI = true
			}
			if storesIP(ins) {
				hasIP = true
			}
		})
		if hasFI && hasIP && fn != vf.loop && len(fn.Params) >= 2 {
			if _, ok := fn.Params[1].Type().(*types.Pointer); ok && isNamed(fn.Params[1].Type(), modPath, "CompiledFunction") {
				cands = append(cands, fn)
			}
		}
	}
	// among nested candidates the innermost one (it does not call another candidate)
	for _, fn := range cands {
		inner := true
		eachInstr(fn, func(ins ssa.Instruction) {
			if cl, ok := ins.(*ssa.Call); ok {
				for _, o := range cands {
					if o != fn && cl.Call.StaticCallee() == o {
						inner = false
					}
				}
			}
		})
		if inner {
			callFn = fn
		}
	}
	// when the frame claim itself was split out into a helper, the innermost
	// candidate is that helper; the call routine is then the candidate that has,
	// besides the path that claims a frame, a path that resets ip without
	// claiming one
	hasFastPath := func(fn *ssa.Function) bool {
		found := false
		eachInstr(fn, func(ins ssa.Instruction) {
			if !storesIP(ins) || storesFI(ins) {
				return
			}
			claims := false
			eachInstr(fn, func(x ssa.Instruction) {
				if storesFI(x) && (instrDominates(x, ins) || instrDominates(ins, x)) {
					claims = true
				}
			})
			if !claims {
				found = true
			}
		})
		return found
	}
	if callFn != nil && !hasFastPath(callFn) {
		for _, fn := range cands {
			if fn != callFn && hasFastPath(fn) {
				callFn = fn
				break
			}
		}
	}
	if !c.Anchor(rt, "the compiled-call routine (VM method taking *CompiledFunction that claims a frame)", callFn != nil) {
		return
	}
	// the fast path: the instruction of the call routine that resets ip (a
	// store, or a call of a helper that stores it) and is NOT on one path with
	// a frameIndex store (no frame is claimed)
	var fast ssa.Instruction
	eachInstr(callFn, func(ins ssa.Instruction) {
		if !storesIP(ins) || storesFI(ins) {
			return
		}
		claims := false
		eachInstr(callFn, func(x ssa.Instruction) {
			if storesFI(x) && (instrDominates(x, ins) || instrDominates(ins, x)) {
				claims = true
			}
		})
		if !claims {
			fast = ins
		}
	})
	var cfParam ssa.Value = callFn.Params[1]
	var outerFn *ssa.Function // set when the fast path lives in a helper: the routine that calls it
	var outerCall *ssa.Call
	if fast == nil {
		// the whole fast path (test and frame reuse) may live in a helper that
		// reports whether it took it: a callee that stores ip itself and never
		// claims a frame
		eachInstr(callFn, func(ins ssa.Instruction) {
			cl, ok := ins.(*ssa.Call)
			if !ok || fast != nil {
				return
			}
			h := cl.Call.StaticCallee()
			if h == nil || funcPkgPath(h) != modPath || len(h.Blocks) == 0 {
				return
			}
			var hFast ssa.Instruction
			claimsInH := false
			eachInstr(h, func(x ssa.Instruction) {
				if st, ok := x.(*ssa.Store); ok {
					if fa, ok := vf.isVMFieldAddr(st.Addr); ok {
						if fa.Field == fIP {
							hFast = x
						}
						if fa.Field == fFrameIdx {
							claimsInH = true
						}
					}
				}
			})
			if hFast == nil || claimsInH {
				return
			}
			for _, p := range h.Params {
				if _, ok := p.Type().(*types.Pointer); ok && isNamed(p.Type(), modPath, "CompiledFunction") {
					cfParam = p
				}
			}
			outerFn, outerCall = callFn, cl
			callFn, fast = h, hFast
		})
	}
	if fast == nil {
		c.Ok(rt, "no frame-reusing fast path", l.Pos(callFn.Pos()), "the call routine always claims a new frame")
		return
	}
	pos := l.Pos(fast.Pos())
	_, fFn := l.structField(modPath, "frame", "fn")
	_, fEH := l.structField(modPath, "frame", "errHandlers")
	// onFast: some instruction of the call routine that lies on every path
	// through the fast path (dominates it or is dominated by it), or the fast
	// path's helper call itself, satisfies pred (lifted over helper calls)
	onFast := func(pred func(ssa.Instruction) bool) bool {
		dp := viaDeep(pred)
		found := false
		eachInstr(callFn, func(x ssa.Instruction) {
			if dp(x) && (x == fast || instrDominates(x, fast) || instrDominates(fast, x)) {
				found = true
			}
		})
		return found
	}
	// (a) same callee: guard comparing the callee parameter with curFrame.fn
	sameCallee := false
	var predHelpers []*ssa.Function
	for _, g := range guardEdges(fast.Block()) {
		if cl, ok := g.If.Cond.(*ssa.Call); ok && g.Truth {
			if h := cl.Call.StaticCallee(); h != nil && len(h.Blocks) > 0 && funcPkgPath(h) == modPath {
				predHelpers = append(predHelpers, h)
			}
		}
		bo, ok := g.If.Cond.(*ssa.BinOp)
		if !ok || !((bo.Op == token.EQL && g.Truth) || (bo.Op == token.NEQ && !g.Truth)) {
			continue
		}
		for _, pr := range [][2]ssa.Value{{bo.X, bo.Y}, {bo.Y, bo.X}} {
			if pr[0] == cfParam {
				if u, ok := pr[1].(*ssa.UnOp); ok {
					if _, ok := isFieldAddrOf(u.X, modPath, "frame", fFn); ok {
						sameCallee = true
					}
				}
			}
		}
	}
	// ... or the guard is a predicate helper that receives the callee and returns
	// anything but false only behind that comparison
	if !sameCallee {
		for _, g := range guardEdges(fast.Block()) {
			cl, ok := g.If.Cond.(*ssa.Call)
			if !ok || !g.Truth {
				continue
			}
			h := cl.Call.StaticCallee()
			if h == nil || len(h.Blocks) == 0 || funcPkgPath(h) != modPath {
				continue
			}
			var hp *ssa.Parameter
			for i, a := range cl.Call.Args {
				if a == cfParam && i < len(h.Params) {
					hp = h.Params[i]
				}
			}
			if hp == nil {
				continue
			}
			all, n := true, 0
			for _, hb := range h.Blocks {
				ret, ok := hb.Instrs[len(hb.Instrs)-1].(*ssa.Return)
				if !ok || len(ret.Results) != 1 {
					continue
				}
				if k, ok := ret.Results[0].(*ssa.Const); ok && k.Value != nil && k.Value.Kind() == constant.Bool && !constant.BoolVal(k.Value) {
					continue
				}
				n++
				guarded := false
				for _, hg := range guardEdges(hb) {
					bo, ok := hg.If.Cond.(*ssa.BinOp)
					if !ok || !((bo.Op == token.EQL && hg.Truth) || (bo.Op == token.NEQ && !hg.Truth)) {
						continue
					}
					for _, pr := range [][2]ssa.Value{{bo.X, bo.Y}, {bo.Y, bo.X}} {
						if pr[0] == ssa.Value(hp) {
							if u, ok := pr[1].(*ssa.UnOp); ok {
								if _, ok := isFieldAddrOf(u.X, modPath, "frame", fFn); ok {
									guarded = true
								}
							}
						}
					}
				}
				if !guarded {
					all = false
				}
			}
			if all && n > 0 {
				sameCallee = true
			}
		}
	}
	c.Check(rt, "fast path only for the current frame's own function", pos, sameCallee, "dominated by callee == curFrame.fn", "the frame is reused for a callee that is not proven to be the function of the current frame: locals and free variables of another function are reused")
	// (b) continuation: collect every comparison of an instruction byte with an
	// opcode constant among the conditions that lead to the fast path (in the
	// call routine, and in a predicate helper that guards the fast path)
	contOK := true
	seenReturn := false
	var nextOps []string
	cmpOpcode := func(bo *ssa.BinOp) {
		for _, pr := range [][2]ssa.Value{{bo.X, bo.Y}, {bo.Y, bo.X}} {
			k, ok := constInt64(pr[0])
			if !ok {
				continue
			}
			// other side: an element of vm.curInsts
			if !derivesFrom(pr[1], func(v ssa.Value) bool {
				fa, ok := v.(*ssa.FieldAddr)
				if !ok {
					return false
				}
				_, isVM := vf.isVMFieldAddr(fa)
				return isVM && fa.Field == fCurInsts
			}, 5) {
				continue
			}
			name := fmt.Sprint(k)
			for o, v := range opcodeConsts(l) {
				if v == k {
					name = o.Name()
				}
			}
			nextOps = append(nextOps, name)
			if k == opReturn {
				seenReturn = true
			} else {
				contOK = false
			}
		}
	}
	for _, b := range callFn.Blocks {
		iff, ok := b.Instrs[len(b.Instrs)-1].(*ssa.If)
		if !ok {
			continue
		}
		// does the "equal" edge of this condition reach the fast path?
		bo, ok := iff.Cond.(*ssa.BinOp)
		if !ok || (bo.Op != token.EQL && bo.Op != token.NEQ) {
			continue
		}
		eqEdge := b.Succs[0]
		if bo.Op == token.NEQ {
			eqEdge = b.Succs[1]
		}
		if eqEdge != fast.Block() && !blockReaches(eqEdge, fast.Block()) {
			continue
		}
		cmpOpcode(bo)
	}
	for _, h := range predHelpers {
		eachInstr(h, func(ins ssa.Instruction) {
			if bo, ok := ins.(*ssa.BinOp); ok && (bo.Op == token.EQL || bo.Op == token.NEQ) {
				cmpOpcode(bo)
			}
		})
	}
	sort.Strings(nextOps)
	c.Check(rt, "fast path only when the call is followed by RETURN", pos, contOK && seenReturn, "the opcode after the call is compared with OpReturn only",
		fmt.Sprintf("the fast path is also taken when the instruction after the call is one of %v: e.g. for POP;RETURN ordinary recursion discards the callee's value while the reused frame returns it", nextOps))
	// (c) handlers cleared
	clears := onFast(func(ins ssa.Instruction) bool {
		st, ok := ins.(*ssa.Store)
		if !ok {
			return false
		}
		if _, ok := isFieldAddrOf(st.Addr, modPath, "frame", fEH); !ok {
			return false
		}
		cst, ok := st.Val.(*ssa.Const)
		return ok && cst.IsNil()
	})
	c.Check(rt, "fast path clears the frame's error handlers", pos, clears, "errHandlers = nil on the fast path", "the reused frame keeps the handlers of the previous activation")
	// (d) locals beyond the parameters are reset on the fast path too: a loop
	// storing Undefined into the stack lies on the way to the fast path: its
	// header dominates the fast path (or, in a helper, every return of the
	// helper whose call dominates the fast path)
	undef := l.SPkg(modPath).Var("Undefined")
	// resetLoopBefore: fn has such a loop with a block on the cycle dominating `target`
	resetLoopBefore := func(fn *ssa.Function, dominatesTarget func(*ssa.BasicBlock) bool) bool {
		res := false
		eachInstr(fn, func(ins ssa.Instruction) {
			st, ok := ins.(*ssa.Store)
			if !ok {
				return
			}
			u, ok := st.Val.(*ssa.UnOp)
			if !ok || u.X != ssa.Value(undef) {
				return
			}
			if _, ok := st.Addr.(*ssa.IndexAddr); !ok {
				return
			}
			b := st.Block()
			cyc := false
			for _, s := range b.Succs {
				if blockReaches(s, b) {
					cyc = true
				}
			}
			if !cyc {
				return
			}
			for _, x := range fn.Blocks {
				if blockReaches(x, b) && blockReaches(b, x) && dominatesTarget(x) {
					res = true
				}
			}
		})
		return res
	}
	resets := resetLoopBefore(callFn, func(x *ssa.BasicBlock) bool { return x.Dominates(fast.Block()) })
	if !resets && outerFn != nil {
		// the loop runs in the call routine before it calls the helper
		resets = resetLoopBefore(outerFn, func(x *ssa.BasicBlock) bool { return x.Dominates(outerCall.Block()) })
	}
	if !resets {
		eachInstr(callFn, func(ins ssa.Instruction) {
			cl, ok := ins.(*ssa.Call)
			if !ok || !(ins == fast || instrDominates(ins, fast)) {
				return
			}
			h := cl.Call.StaticCallee()
			if h == nil || len(h.Blocks) == 0 || funcPkgPath(h) != modPath {
				return
			}
			if resetLoopBefore(h, func(x *ssa.BasicBlock) bool {
				for _, rb := range h.Blocks {
					if _, isRet := rb.Instrs[len(rb.Instrs)-1].(*ssa.Return); isRet && !x.Dominates(rb) {
						return false
					}
				}
				return true
			}) {
				resets = true
			}
		})
	}
	defer func() {
		rtp := c.Rule("try-end-pop", "the instruction that ends a try statement pops the statement's handler on every path (handlers are addressed by static nesting depth; loop control with break / continue / return through finally depends on it)", 1)
		ruleTryEndPop(c, rtp)
		rpe := c.Rule("pending-err-per-handler", "the error parked while a finally or catch block runs is kept per handler, not once per activation: a try statement nested in that block cannot lose it", 1)
		rulePendingErrPerHandler(c, rpe)
		rcb := c.Rule("counter-balance", "a function that increments a nesting counter of the compiler or optimizer (try depth, loop depth, expression level) decrements it again on every path to a successful return", 2)
		ruleCounterBalance(c, rcb)
		rha := c.Rule("handler-active", "an error is delivered to a frame only if hasActiveHandler succeeded for that frame: a try statement whose finally block is running does not catch the errors of calls made from it a second time", 2)
		ruleHandlerActive(c, rha)
		rcv := c.Rule("catch-var-fresh", "the catch clause binds the error to a fresh variable (OpDefineLocal): the variable's definition at the end of the try body is skipped on the throwing path, and OpSetLocal would write through whatever cell the reused slot still holds", 1)
		ruleCatchVarFresh(c, rcv)
		rsp := c.Rule("stack-index-paired", "the compiler's stack of open loops and the index of the innermost one move together: the function that decrements the index also shortens the slice", 1)
		ruleStackIndexPaired(c, rsp)
		rco := c.Rule("compound-op-agree", "the operator emitted for a compound assignment is the one the token package's spelling table pairs with it (`%=` with `%`): x op= y is x = x op y", 8)
		ruleCompoundOpAgree(c, rco)
		rso := c.Rule("symbol-operand", "every emitted instruction that addresses a local or a captured variable takes its operand from the Index of a Symbol", 8)
		ruleSymbolOperand(c, rso)
		rrc := c.Rule("operand-read-cover", "a dispatch arm that reads operands reads every operand byte the opcode table gives its instruction (ip+1 .. ip+W), counting the routines it calls", 30)
		ruleOperandReadCover(c, rrc)
		rof := c.Rule("operand-forwarded", "the operands of a call instruction (argument count, spread flag) reach every call routine: a call site passes the instruction's byte, forwards its own operand parameter, or has read the operand on every path to the call", 6)
		ruleOperandForwarded(c, rof)
		rbc := c.Rule("blank-never-const", "the blank identifier is never made a constant symbol: it can be declared again in the same scope", 2)
		ruleBlankNeverConst(c, rbc)
		rfc := c.Rule("free-const", "the symbol of a captured variable inherits the Constant flag: a constant cannot be assigned from inside a function literal", 1)
		ruleFreeConst(c, rfc)
		rdf := c.Rule("define-fresh", "a := declaration of a local is always compiled to OpDefineLocal, never to an assignment opcode: one fresh variable per executed declaration", 1)
		ruleDefineFresh(c, rdf)
	}()
	defer func() {
		rle := c.Rule("locals-elements", "an Eval session never overwrites an element of its saved locals: a captured variable's cell stays the variable that later fragments and earlier closures share (closures capture by reference)", 1)
		ruleEvalLocalsElements(c, rle)
	}()
	c.Check(rt, "fast path resets the non-parameter locals", pos, resets, "the loop storing undefined into the locals lies on every path to the fast path", "the reused frame keeps the previous activation's locals: a closure that captured one of them (e.g. a catch variable) shares it across activations, unlike ordinary recursion")
}
