#!/usr/bin/env python3-vt
# Validates MANIFEST.json and evidence/*.json against the schemas in /root/.vp.
import json, sys, glob, jsonschema
m = json.load(open('/verif/MANIFEST.json'))
jsonschema.validate(m, json.load(open('/root/.vp/MANIFEST.schema.json')))
ids = [c['property_id'] for c in m['checks']]
na = [n['property_id'] for n in m.get('not_applicable', [])]
props = [json.loads(l)['id'] for l in open('/verif/properties.jsonl')]
assert sorted(ids + na) == sorted(props), (sorted(ids + na), props)
es = json.load(open('/root/.vp/EVIDENCE.schema.json'))
n = 0
for c in m['checks']:
    try:
        e = json.load(open('/verif/' + c['evidence_file']))
    except FileNotFoundError:
        print('missing evidence', c['evidence_file']); continue
    jsonschema.validate(e, es); n += 1
    assert e['property_id'] == c['property_id']
print('manifest ok: %d checks, %d n/a; %d evidence files valid' % (len(ids), len(na), n))
