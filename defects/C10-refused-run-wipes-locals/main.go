package main

import (
	"context"
	"fmt"

	"github.com/ozanh/ugo"
)

func main() {
	ev := ugo.NewEval(ugo.CompilerOptions{}, nil)
	ret, _, err := ev.Run(context.Background(), []byte("a := 41"))
	fmt.Println("1:", ret, err, ev.Locals)
	cctx, cancel := context.WithCancel(context.Background())
	cancel()
	ret, _, err = ev.Run(cctx, []byte("b := 2"))
	fmt.Println("2 (cancelled before start):", ret, err, ev.Locals)
	func() {
		defer func() {
			if r := recover(); r != nil {
				fmt.Println("3: GO PANIC", r)
			}
		}()
		ret, _, err = ev.Run(context.Background(), []byte("return a + 1"))
		fmt.Println("3 (want 42):", ret, err)
	}()
}
