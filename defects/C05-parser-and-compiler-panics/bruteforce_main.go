package main

import (
	"fmt"
	"os"
	"time"

	"github.com/ozanh/ugo"
)

var vocab = []string{"var", "const", "param", "global", "(", ")", "{", "}", "[", "]", ",", ";", "a", "1", "=", ":=", "if", "else", "for", "in", "func", "return", "try", "catch", "finally", "throw", "import", ".", "...", "?", ":", "+", "break", "continue", "\n", "\"s\"", "=>", "/*c*/", "//c\n"}

func try(src string) string {
	done := make(chan string, 1)
	go func() {
		defer func() {
			if r := recover(); r != nil {
				done <- fmt.Sprintf("PANIC: %.100v", r)
			}
		}()
		_, err := ugo.Compile([]byte(src), ugo.CompilerOptions{})
		_ = err
		done <- ""
	}()
	select {
	case s := <-done:
		return s
	case <-time.After(2 * time.Second):
		return "HANG"
	}
}

func main() {
	n := 0
	seen := map[string]bool{}
	report := func(src string) {
		if r := try(src); r != "" {
			key := r
			if len(key) > 40 {
				key = key[:40]
			}
			if !seen[key+src[:min(len(src), 8)]] {
				seen[key+src[:min(len(src), 8)]] = true
				fmt.Printf("%-40q %s\n", src, r)
				n++
				if n > 60 {
					os.Exit(0)
				}
			}
		}
	}
	for _, a := range vocab {
		report(a)
		for _, b := range vocab {
			report(a + " " + b)
			for _, c := range vocab {
				report(a + " " + b + " " + c)
			}
		}
	}
}
