package main

import (
	"fmt"

	"github.com/ozanh/ugo"
)

func main() {
	for _, src := range []string{`for a,b,c in [1] {}`, `try { const e = 1 } catch e {}`} {
		func() {
			defer func() {
				if r := recover(); r != nil {
					fmt.Printf("%q PANIC %v\n", src, r)
				}
			}()
			_, err := ugo.Compile([]byte(src), ugo.CompilerOptions{})
			fmt.Printf("%q err=%v\n", src, err)
		}()
	}
	_, err := ugo.Compile([]byte(`for a,b,c in [1] {}`), ugo.CompilerOptions{})
	fmt.Println(err)
}
