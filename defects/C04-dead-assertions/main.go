package main

import (
	"bytes"
	"fmt"

	"github.com/ozanh/ugo"
	"github.com/ozanh/ugo/encoder"
)

type fnImporter struct{ f ugo.Object }

func (i fnImporter) Import(string) (any, error) { return i.f, nil }

func try(name string, mm *ugo.ModuleMap, src string) {
	defer func() {
		if r := recover(); r != nil {
			fmt.Printf("%s: GO PANIC %v\n", name, r)
		}
	}()
	bc, err := ugo.Compile([]byte(src), ugo.CompilerOptions{ModuleMap: mm})
	if err != nil {
		fmt.Printf("%s: compile: %v\n", name, err)
		return
	}
	ret, err := ugo.NewVM(bc).Run(nil)
	fmt.Printf("%s: original: %v %v\n", name, ret, err)
	var buf bytes.Buffer
	if err := encoder.EncodeBytecodeTo(bc, &buf); err != nil {
		fmt.Printf("%s: encode: %v\n", name, err)
		return
	}
	dec, err := encoder.DecodeBytecodeFrom(&buf, mm)
	if err != nil {
		fmt.Printf("%s: decode: %v\n", name, err)
		return
	}
	ret, err = ugo.NewVM(dec).Run(nil)
	fmt.Printf("%s: decoded: %v %v\n", name, ret, err)
}

func main() {
	// a builtin module exporting a builtin function
	mm := ugo.NewModuleMap()
	mm.AddBuiltinModule("m", map[string]ugo.Object{"length": ugo.BuiltinObjects[ugo.BuiltinLen]})
	try("builtin function attribute", mm, `m := import("m"); return m.length([1,2])`)
	// an importable whose value is a Go function object itself
	mm2 := ugo.NewModuleMap()
	mm2.Add("f", fnImporter{&ugo.Function{Name: "f", Value: func(args ...ugo.Object) (ugo.Object, error) { return ugo.Int(7), nil }}})
	try("function module", mm2, `f := import("f"); return f()`)
}
