package main

import (
	"fmt"

	"github.com/ozanh/ugo"
	ujson "github.com/ozanh/ugo/stdlib/json"
	utime "github.com/ozanh/ugo/stdlib/time"
)

func try(name string, o ugo.Object) {
	defer func() {
		if r := recover(); r != nil {
			fmt.Printf("%-28s PANIC %v\n", name, r)
		}
	}()
	fmt.Printf("%-28s %#v\n", name, ugo.ToInterface(o))
}

func main() {
	try("(*time.Time)(nil)", (*utime.Time)(nil))
	try("(*time.Location)(nil)", (*utime.Location)(nil))
	try("(*json.RawMessage)(nil)", (*ujson.RawMessage)(nil))
	try("nested", ugo.Map{"a": (*utime.Time)(nil)})
}
