import sys
sys.path.insert(0,'p18')
exec(open('p18/reference.py').read().split('n=0\nfor a in pieces')[0])
def run2(a,b,c,form):
    out=[]
    def loop(o):
        for i in range(2):
            P=lambda p: (lambda o2: ex(p,o2,i))
            body=[lit('L'),trycf([P(b)],None,[lit('G'),P(c)]),lit('E')]
            r=seq(body,o)
            if r[0]=='c': continue
            if r[0]=='b': break
            if r[0]!='n': return r
        return ('n',None)
    Pa=lambda o2: ex(a,o2,0)
    if form==2:
        inner=trycf([Pa],None,[lit('F'),loop,lit('X')])
    else:
        inner=trycf([Pa],[lit('C'),loop,lit('X')],[lit('F')])
    f=trycf([inner,lit('A')],[lit('K')],[lit('O')])
    r=f(out)
    if r[0]=='n': r=('r','end')
    val = r[1] if r[0]=='r' else 'outer:'+r[1]
    return 'ret=["%s", "%s"] err=<nil>'%(val,''.join(out))
n=0
for a in pieces:
    for b in pieces:
        for c in pieces:
            for form in (2,3):
                if 'break' in a or 'continue' in a: continue
                print('%d %s'%(n,run2(a,b,c,form))); n+=1
