pieces=['', 'x', 'throwE1', 'tryIcatch', 'tryJfinally', 'boom', 'returnR', 'break', 'continue', 'ifcontinue', 'ifbreak']
def ex(p,out,i):
    if p=='': return ('n',None)
    if p=='x': out.append('x'); return ('n',None)
    if p=='throwE1': return ('t','error: E1')
    if p=='tryIcatch': out.append('c'); return ('n',None)
    if p=='tryJfinally': out.append('g'); return ('t','error: J')
    if p=='boom': return ('t','ZeroDivisionError: ')
    if p=='returnR': return ('r','R')
    if p=='break': return ('b',None)
    if p=='continue': return ('c',None)
    if p=='ifcontinue': return ('c',None) if i==0 else ('n',None)
    if p=='ifbreak': return ('b',None) if i==0 else ('n',None)
def seq(stmts,out):
    for s in stmts:
        r=s(out)
        if r[0]!='n': return r
    return ('n',None)
def trycf(T,C,F):
    def f(o):
        r=seq(T,o)
        if r[0]=='t' and C is not None:
            r=seq(C,o)
        fr=seq(F,o)
        return fr if fr[0]!='n' else r
    return f
def lit(ch): return lambda o: (o.append(ch),('n',None))[1]
def run(a,b,c,form):
    out=[]
    def loop(o):
        for i in range(2):
            P=lambda p: (lambda o2: ex(p,o2,i))
            if form==0:
                body=[lit('L'),trycf([P(a)],[lit('C'),P(b)],[lit('F'),P(c)]),lit('E')]
            else:
                body=[lit('L'),trycf([P(a),P(b)],None,[lit('F'),P(c)]),lit('E')]
            r=seq(body,o)
            if r[0]=='c': continue
            if r[0]=='b': break
            if r[0]!='n': return r
        return ('n',None)
    f=trycf([loop,lit('A')],[lit('K')],[lit('O')])
    r=f(out)
    if r[0]=='n': r=('r','end')
    val = r[1] if r[0]=='r' else 'outer:'+r[1]
    return 'ret=["%s", "%s"] err=<nil>'%(val,''.join(out))
n=0
for a in pieces:
    for b in pieces:
        for c in pieces:
            for form in (0,1):
                print('%d %s'%(n,run(a,b,c,form))); n+=1
