package main

import (
	"fmt"

	"github.com/ozanh/ugo"
)

func run(name, src string) {
	defer func() {
		if r := recover(); r != nil {
			fmt.Printf("%s: GO PANIC %v\n", name, r)
		}
	}()
	bc, err := ugo.Compile([]byte(src), ugo.CompilerOptions{})
	if err != nil {
		fmt.Printf("%s: compile: %v\n", name, err)
		return
	}
	ret, err := ugo.NewVM(bc).Run(nil)
	e := fmt.Sprint(err)
	if len(e) > 60 {
		e = e[:60]
	}
	fmt.Printf("%s: %v %v\n", name, ret, e)
}

func main() {
	run("1 want iF|error: E", "out := \"\"\nf := func() { try { throw \"E\" } finally { for i := 0; i < 1; i++ { try { break } finally { out += \"i\" } }; out += \"F\" }; out += \"after\" }\ntry { f() } catch e { out += \"|\" + string(e) }\nreturn out")
	run("2 want iiF|error: E", "out := \"\"\nf := func() { try { throw \"E\" } finally { for i := 0; i < 2; i++ { try { continue } finally { out += \"i\" } }; out += \"F\" }; out += \"after\" }\ntry { f() } catch e { out += \"|\" + string(e) }\nreturn out")
	run("4 want F|error: E", "out := \"\"\nf := func() { try { throw \"E\" } finally { for i := 0; i < 1; i++ { try { throw \"x\" } catch { break } }; out += \"F\" }; out += \"after\" }\ntry { f() } catch e { out += \"|\" + string(e) }\nreturn out")
	run("5 want [1, iFO]", "out := \"\"\nf := func() {\n try {\n  try { return 1 } finally { for i := 0; i < 1; i++ { try { break } finally { out += \"i\" } }; out += \"F\" }\n  out += \"after\"\n } finally { out += \"O\" }\n return 2\n}\nreturn [f(), out]")
}
