package main

import (
	"fmt"
	"os"
	"path/filepath"
	"sort"

	"github.com/ozanh/ugo"
)

func run(name, src string) {
	defer func() {
		if r := recover(); r != nil {
			fmt.Printf("%s: GO PANIC %v\n", name, r)
		}
	}()
	bc, err := ugo.Compile([]byte(src), ugo.CompilerOptions{})
	if err != nil {
		fmt.Printf("%s: compile: %v\n", name, err)
		return
	}
	ret, err := ugo.NewVM(bc).Run(nil)
	e := fmt.Sprint(err)
	if len(e) > 60 {
		e = e[:60]
	}
	fmt.Printf("%s: %v %v\n", name, ret, e)
}

func main() {
	files, _ := filepath.Glob("p17/*.ugo")
	sort.Strings(files)
	for _, f := range files {
		b, _ := os.ReadFile(f)
		run(filepath.Base(f), string(b))
	}
	run("a1 (want iLO)", "out := \"\"\ntry {\n  for { try { throw \"E\" } finally { out += \"i\"; break } }\n  out += \"L\"\n} finally { out += \"O\" }\nreturn out")
	run("a2 (want iiLO)", "out := \"\"\nf := func() {\n  try {\n    for i:=0;i<2;i++ { try { throw \"E\" } finally { out += \"i\"; continue } }\n    out += \"L\"\n  } catch e { out += \"C\" + string(e) } finally { out += \"O\" }\n  return out\n}\nreturn f()")
	run("a3 (want aiLB|M(error: late))", "out := \"\"\nf := func() {\n  try {\n    for { try { out += \"a\" } finally { out += \"i\"; break } }\n    out += \"L\"\n  } finally { out += \"B\" }\n  out += \"|\"\n  throw \"late\"\n}\ntry { f() } catch e { out += \"M(\" + string(e) + \")\" }\nreturn out")
	run("b1 loop inside finally (want error: E after xx)", "out := \"\"\nf := func() { try { throw \"E\" } finally { for i := 0; i < 2; i++ { out += \"x\"; if i == 0 { continue }; break } }; return \"no\" }\ntry { f() } catch e { out += string(e) }\nreturn out")
	run("b2 return survives loop in finally (want [1, xx])", "out := \"\"\nf := func() { try { return 1 } finally { for i := 0; i < 2; i++ { out += \"x\"; if i == 0 { continue }; break } }; return 2 }\nreturn [f(), out]")
}
