package main

import (
	"fmt"
	"strings"

	"github.com/ozanh/ugo"
)

// generated programs: a loop with try/catch/finally inside an outer try; pieces placed in the
// inner try, catch and finally bodies include break and continue
var pieces = []string{
	``,
	`out += "x"`,
	`throw "E1"`,
	`try { throw "I" } catch e { out += "c" }`,
	`try { throw "J" } finally { out += "g" }`,
	`boom()`,
	`return "R"`,
	`break`,
	`continue`,
	`if i == 0 { continue }`,
	`if i == 0 { break }`,
}

func run(src string) string {
	var res string
	func() {
		defer func() {
			if r := recover(); r != nil {
				res = fmt.Sprintf("GO PANIC %v", r)
			}
		}()
		bc, err := ugo.Compile([]byte(src), ugo.CompilerOptions{})
		if err != nil {
			res = "compile: " + strings.ReplaceAll(err.Error(), "\n", " ")
			return
		}
		vm := ugo.NewVM(bc)
		ret, err := vm.Run(nil)
		e := "<nil>"
		if err != nil {
			e = strings.SplitN(err.Error(), "\n", 2)[0]
		}
		res = fmt.Sprintf("ret=%v err=%s", ret, e)
	}()
	return res
}

func main() {
	n := 0
	for _, a := range pieces {
		for _, b := range pieces {
			for _, c := range pieces {
				for form := 2; form < 4; form++ {
					var body string
					if strings.Contains(a, "break") || strings.Contains(a, "continue") {
						continue // a is not inside a loop in these forms
					}
					if form == 2 {
						body = fmt.Sprintf(`try { %s } finally { out += "F"; for i := 0; i < 2; i++ { out += "L"; try { %s } finally { out += "G"; %s }; out += "E" }; out += "X" }`, a, b, c)
					} else {
						body = fmt.Sprintf(`try { %s } catch e1 { out += "C"; for i := 0; i < 2; i++ { out += "L"; try { %s } finally { out += "G"; %s }; out += "E" }; out += "X" } finally { out += "F" }`, a, b, c)
					}
					src := fmt.Sprintf(`
out := ""
boom := func() { z := 0; return 1/z }
f := func() {
	try {
		%s
		out += "A"
	} catch e2 {
		out += "K"
	} finally {
		out += "O"
	}
	return "end"
}
r := ""
try { r = f() } catch e3 { r = "outer:" + string(e3) }
return [r, out]`, body)
					fmt.Printf("%d %s\n", n, run(src))
					n++
				}
			}
		}
	}
}
