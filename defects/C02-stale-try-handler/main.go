package main

import (
	"fmt"

	"github.com/ozanh/ugo"
)

func run(src string) {
	defer func() {
		if r := recover(); r != nil {
			fmt.Printf("GO PANIC %v\n", r)
		}
	}()
	bc, err := ugo.Compile([]byte(src), ugo.CompilerOptions{})
	if err != nil {
		fmt.Printf("compile: %.80v\n", err)
		return
	}
	ret, err := ugo.NewVM(bc).Run(nil)
	fmt.Printf("ret=%v err=%.80v\n", ret, err)
}

func main() {
	run(`try { } finally { }
out := ""
try { for i := 0; i < 2; i++ { try { break } finally { out += "A" } }; out += "C" } finally { out += "B" }
return out`)
	run(`out := ""
try { for i := 0; i < 2; i++ { try { break } finally { out += "A" } }; out += "C" } finally { out += "B" }
return out`)
	run(`f := func() { try { return 1 } finally { try { } catch { } }; return 2 }; return f()`)
	run(`boom := func() { z := 0; return 1/z }
try { boom() } finally { try { throw "inner" } catch e { } }; return "survived"`)
}
