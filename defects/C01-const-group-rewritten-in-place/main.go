package main

import (
	"fmt"

	"github.com/ozanh/ugo"
)

func run(src string, noopt bool) string {
	bc, err := ugo.Compile([]byte(src), ugo.CompilerOptions{NoOptimize: noopt})
	if err != nil {
		return "compile: " + err.Error()
	}
	ret, err := ugo.NewVM(bc).Run(nil)
	return fmt.Sprintf("%v %v", ret, err)
}

func main() {
	for _, src := range []string{
		"const x = 1\nif true {\n const (\n  x = x + 1\n  y\n )\n return [x, y]\n}",
		"const k = 10\nconst (\n a = k + iota\n b\n c\n)\nreturn [a, b, c]",
		"const k = 10\nreturn func() {\n const (\n  k = k + 1\n  m\n  n\n )\n return [k, m, n]\n}()",
	} {
		fmt.Printf("%q\n  NoOptimize: %s\n  optimized:  %s\n", src, run(src, true), run(src, false))
	}
}
