package main

import (
	"fmt"

	"github.com/ozanh/ugo"
)

func run(src string, noopt bool) string {
	bc, err := ugo.Compile([]byte(src), ugo.CompilerOptions{NoOptimize: noopt})
	if err != nil {
		return "compile: " + err.Error()
	}
	ret, err := ugo.NewVM(bc).Run(nil)
	e := fmt.Sprint(err)
	if len(e) > 70 {
		e = e[:70]
	}
	return fmt.Sprintf("%v %v", ret, e)
}

func main() {
	for _, src := range []string{
		"const x = 1\nif true {\n const (\n  f = func() { return x + 1 }\n  x\n  g\n )\n return g()\n}",
		"const (\n a = int(\"5\")\n int\n b\n)\nreturn [a, int, b]",
		"const (\n f = func() { return len(\"ab\") }\n len\n g\n)\nreturn g()",
	} {
		fmt.Printf("%q\n  NoOptimize: %s\n  optimized:  %s\n", src, run(src, true), run(src, false))
	}
}
