package main

import (
	"context"
	"fmt"

	"github.com/ozanh/ugo"
)

func main() {
	st := ugo.NewSymbolTable()
	_, err := ugo.Compile([]byte("return len([1])"), ugo.CompilerOptions{SymbolTable: st})
	fmt.Println("first compile (len enabled):", err)
	st.DisableBuiltin("len")
	_, err = ugo.Compile([]byte("return len([1])"), ugo.CompilerOptions{SymbolTable: st})
	fmt.Println("second compile (len disabled on the same table):", err)

	ev := ugo.NewEval(ugo.CompilerOptions{}, nil)
	_, _, err = ev.Run(context.Background(), []byte("x := len([1])"))
	fmt.Println("eval 1:", err)
	ev.Opts.SymbolTable.DisableBuiltin("len")
	ret, _, err := ev.Run(context.Background(), []byte("return len([1,2])"))
	fmt.Println("eval 2 after DisableBuiltin:", ret, err)
}
