package demo

import (
	"encoding/binary"
	"testing"

	"github.com/ozanh/ugo/encoder"
)

func TestWrap(t *testing.T) {
	const n = 1<<31 - 1
	data := make([]byte, n)
	data[0] = 5 // binStringV1? set below
	var buf [binary.MaxVarintLen64]byte
	k := binary.PutVarint(buf[:], int64(n))
	data[1] = byte(k)
	copy(data[2:], buf[:k])
	for _, tag := range []byte{1, 2, 3, 4, 5, 6, 7, 8, 9, 10, 11, 12} {
		data[0] = tag
		func() {
			defer func() {
				if r := recover(); r != nil {
					t.Errorf("tag %d: PANIC %v", tag, r)
				}
			}()
			var s encoder.String
			if err := s.UnmarshalBinary(data); err != nil {
				_ = err
			}
		}()
	}
}
