package main

import (
	"fmt"

	"github.com/ozanh/ugo"
)

func run(src string) {
	bc, err := ugo.Compile([]byte(src), ugo.CompilerOptions{})
	if err != nil {
		fmt.Println("compile:", err)
		return
	}
	_, err = ugo.NewVM(bc).Run(nil)
	fmt.Printf("%+v\n---\n", err)
}

func main() {
	run(`
g := func() {
	try {
		throw "x"
	} catch e {
	}
	z := 0
	return 1/z
}
g()
`)
	run(`
try {
} finally {
}
z := 0
return 1/z
`)
}
