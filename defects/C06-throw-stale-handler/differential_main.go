package main

import (
	"fmt"
	"strings"

	"github.com/ozanh/ugo"
)

var bodies = []string{
	`try { throw "x" } catch e { }`,
	`try { throw "x" } catch e { } finally { }`,
	`try { } finally { }`,
	`try { try { throw "a" } finally { } } catch e { }`,
	`try { return 7 } finally { }`,
	`try { throw "a" } catch e { try { throw "b" } catch e2 { } }`,
	`for i := 0; i < 2; i++ { try { if i == 1 { break }; throw "x" } catch e { } finally { } }`,
	``,
}

var tails = []string{
	`z := 0; return 1/z`,
	`return h()`,
	`try { h() } catch e { return "caught:" + string(e) }`,
	`try { h() } finally { out = "fin" }`,
	`try { return 1 } finally { h() }`,
	`try { h() } catch e { throw e }`,
	`return 5`,
}

func safeRun(bc *ugo.Bytecode) (ret ugo.Object, err error) {
	defer func() {
		if r := recover(); r != nil {
			err = fmt.Errorf("GO PANIC: %v", r)
		}
	}()
	return ugo.NewVM(bc).Run(nil)
}

func main() {
	n := 0
	for _, b1 := range bodies {
		for _, b2 := range bodies {
			for _, t := range tails {
				src := "out := \"\"\nh := func() {\n" + b2 + "\nz := 0\nreturn 1/z\n}\ng := func() {\n" + b1 + "\n" + t + "\n}\nr := undefined\ntry {\n r = g()\n} catch e {\n r = \"outer:\" + string(e)\n}\nreturn [r, out]\n"
				bc, err := ugo.Compile([]byte(src), ugo.CompilerOptions{})
				if err != nil {
					fmt.Printf("%d compile: %v\n", n, strings.ReplaceAll(err.Error(), "\n", " "))
					n++
					continue
				}
				ret, err := safeRun(bc)
				fmt.Printf("%d ret=%v err=%v\n", n, ret, strings.ReplaceAll(fmt.Sprintf("%+v", err), "\n", " "))
				// uncaught variant: trace
				src2 := "out := \"\"\nh := func() {\n" + b2 + "\nz := 0\nreturn 1/z\n}\ng := func() {\n" + b1 + "\n" + t + "\n}\nreturn g()\n"
				bc, err = ugo.Compile([]byte(src2), ugo.CompilerOptions{})
				if err == nil {
					ret, err = safeRun(bc)
					fmt.Printf("%d' ret=%v err=%v\n", n, ret, strings.ReplaceAll(fmt.Sprintf("%+v", err), "\n", " "))
				}
				n++
			}
		}
	}
}
