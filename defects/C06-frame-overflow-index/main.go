package main

import (
	"fmt"

	"github.com/ozanh/ugo"
)

func run(src string, rec bool) {
	defer func() {
		if r := recover(); r != nil {
			fmt.Printf("  recover=%v: GO PANIC %v\n", rec, r)
		}
	}()
	bc, err := ugo.Compile([]byte(src), ugo.CompilerOptions{})
	if err != nil {
		fmt.Println("compile:", err)
		return
	}
	ret, err := ugo.NewVM(bc).SetRecover(rec).Run(nil)
	e := fmt.Sprint(err)
	if len(e) > 80 {
		e = e[:80]
	}
	fmt.Printf("  recover=%v: %v %v\n", rec, ret, e)
}

func main() {
	src := `
var f
var depth = 0
var caught = 0
f = func() { depth++; try { f() } catch { caught++; return "c" }; return "x" }
r := f()
return [r, depth, caught]`
	fmt.Println("frame overflow caught in the frame where it occurs (want [\"x\", 1023, 1]):")
	run(src, false)
	run(src, true)
}
