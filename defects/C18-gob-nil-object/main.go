package main

import (
	"fmt"

	"github.com/ozanh/ugo/encoder"
)

func main() {
	defer func() {
		if r := recover(); r != nil {
			fmt.Println("PANIC:", fmt.Sprint(r)[:60])
		}
	}()
	var bc encoder.Bytecode
	err := bc.UnmarshalBinary([]byte{0x00, 0x75, 0x47, 0x4f, 0x00, 0x02, 0x03, 0xff, 0x03, 0x10, 0x00, 0x00})
	fmt.Println("err:", err)
}
