package main

import (
	"fmt"

	"github.com/ozanh/ugo"
)

func run(src string) {
	defer func() {
		if r := recover(); r != nil {
			fmt.Printf("%-70q GO PANIC %v\n", src, r)
		}
	}()
	bc, err := ugo.Compile([]byte(src), ugo.CompilerOptions{})
	if err != nil {
		fmt.Printf("%-60q compile: %.80v\n", src, err)
		return
	}
	ret, err := ugo.NewVM(bc).Run(ugo.Map{"g": ugo.Int(3)})
	fmt.Printf("%-60q ret=%v err=%.80v\n", src, ret, err)
}

func main() {
	run(`try { global g; throw "e" } catch g { return g }`)
	run(`x := 1; try { global g; throw "e" } catch g { }; return [x, g]`)
	run(`f := func() { try { global g } catch g { } }`)
	run(`x := 1; y := 2; z := 3; if true { global g; for g in [7] { }; return [x, y, z, g] }`)
}
