// Demonstration (not part of any check): an Eval fragment that fails to compile
// leaves the symbols it declared in the session's symbol table, while the
// constants it added are dropped.  A `global` symbol carries the index of its
// name in the constant pool: the next fragment that uses the name compiles to
// GETGLOBAL <index> with a shorter constant pool - malformed Bytecode from a
// successful compile; running it panics inside the VM (recovered as an error).
// (Reported by the round-9 C05 seeding agent; reproduced here.)
package main

import (
	"context"
	"fmt"
	"os"

	"github.com/ozanh/ugo"
)

func main() {
	ev := ugo.NewEval(ugo.CompilerOptions{}, ugo.Map{"g": ugo.Int(7)})
	_, _, err := ev.Run(context.Background(), []byte(`"x"; "y"; global g; undefinedIdent`))
	fmt.Println("fragment 1 (must fail to compile):", err)
	ret, bc, err := ev.Run(context.Background(), []byte(`return g`))
	fmt.Println("fragment 2:", ret, err)
	if bc != nil {
		fmt.Println("constants:", len(bc.Constants))
		bc.Fprint(os.Stdout)
	}
	if err != nil || ret != ugo.Int(7) {
		fmt.Println("MISMATCH: expected 7")
		os.Exit(1)
	}
}
