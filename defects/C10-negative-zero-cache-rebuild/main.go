package main

import (
	"context"
	"fmt"

	"github.com/ozanh/ugo"
)

func main() {
	for _, frag := range [][2]string{
		{"a := -0.0", "return string(0.0)"},
		{"a := [-0.0]", "return string([0.0])"},
		{"return -0.0", "return string(0.0)"},
		{"x := 0.0; a := -x; return a", "return string(0.0)"},
	} {
		bc, err := ugo.Compile([]byte(frag[0]+"\n"+frag[1]), ugo.CompilerOptions{})
		if err != nil {
			panic(err)
		}
		ret, err := ugo.NewVM(bc).Run(nil)
		fmt.Printf("one script:        %v %v\n", ret, err)
		ev := ugo.NewEval(ugo.CompilerOptions{}, nil)
		_, bc, err = ev.Run(context.Background(), []byte(frag[0]))
		if err != nil {
			panic(err)
		}
		fmt.Printf("  consts after 1: %v\n", bc.Constants)
		ret, bc, err = ev.Run(context.Background(), []byte(frag[1]))
		fmt.Printf("fragment by fragment: %v %v consts %v\n", ret, err, bc.Constants)
	}
}
