package main

import (
	"context"
	"fmt"

	"github.com/ozanh/ugo"
)

func main() {
	mm := ugo.NewModuleMap()
	mm.AddSourceModule("m", []byte(`return 1`))
	ev := ugo.NewEval(ugo.CompilerOptions{ModuleMap: mm}, nil)
	for _, src := range []string{`a := import("m"); b := undefinedVar`, `y := import("m"); return y`, `return import("m")`} {
		func() {
			defer func() {
				if r := recover(); r != nil {
					fmt.Printf("%q PANIC %v\n", src, r)
				}
			}()
			ret, _, err := ev.Run(context.Background(), []byte(src))
			fmt.Printf("%q ret=%v err=%.80v\n", src, ret, err)
		}()
	}
}
