// Demonstration (not part of any check): decoding valid data into the zero
// value of encoder.Map.  Unrepaired: panic "assignment to entry in nil map";
// repaired: the map is allocated.  (Reported by the round-10 C18 seeding agent.)
package main

import (
	"fmt"
	"os"

	"github.com/ozanh/ugo"
	"github.com/ozanh/ugo/encoder"
)

func main() {
	data, err := encoder.Map(ugo.Map{"a": ugo.Int(1)}).MarshalBinary()
	if err != nil {
		panic(err)
	}
	defer func() {
		if r := recover(); r != nil {
			fmt.Println("PANIC:", r)
			os.Exit(1)
		}
	}()
	var m encoder.Map
	err = m.UnmarshalBinary(data)
	fmt.Println("decoded:", ugo.Map(m), "error:", err)
}
