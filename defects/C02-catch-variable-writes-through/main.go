package main

import (
	"fmt"

	"github.com/ozanh/ugo"
)

func run(src string) {
	for _, noopt := range []bool{false, true} {
		bc, err := ugo.Compile([]byte(src), ugo.CompilerOptions{NoOptimize: noopt})
		if err != nil {
			fmt.Println("compile:", err)
			return
		}
		ret, err := ugo.NewVM(bc).Run(nil)
		fmt.Printf("  noopt=%v: %v %v\n", noopt, ret, err)
	}
}

func main() {
	fmt.Println("captured variable of a closed scope, then a catch variable in the same slot (want 1):")
	run("var f\nif true { x := 1; f = func(){ return x } }\ntry { throw \"e\" } catch err { }\nreturn f()")
	fmt.Println("same without throw (want 1):")
	run("var f\nif true { x := 1; f = func(){ return x } }\ntry { } catch err { }\nreturn f()")
	fmt.Println("catch variable captured in the catch body (want [error: a, error: b]):")
	run("fs := []\nfor m in [\"a\", \"b\"] { try { throw m } catch err { fs = append(fs, func(){ return string(err) }) } }\nreturn [fs[0](), fs[1]()]")
	fmt.Println("a variable of the try body with the name of the catch variable (same variable):")
	run("var g\ntry { e := 1; g = func(){ return e }; throw 2 } catch e { }\nreturn string(g())")
}
