// Demonstration (not part of any check): Marshal of a string containing \b or
// \f compared with encoding/json of the toolchain.  Run from a module that
// replaces github.com/ozanh/ugo with the tree under test:
//   go run .
// Before the repair: ugo "\u0008\u000c", encoding/json "\b\f" (Go >= 1.22).
package main

import (
	gojson "encoding/json"
	"fmt"
	"os"

	"github.com/ozanh/ugo"
	"github.com/ozanh/ugo/stdlib/json"
)

func main() {
	in := "a\b\f\n"
	got, err := json.Marshal(ugo.String(in))
	want, _ := gojson.Marshal(in)
	gotB, _ := json.Marshal(ugo.Bytes(in))
	fmt.Printf("ugo string: %s err=%v\nugo bytes : %s\nreference : %s\n", got, err, gotB, want)
	if string(got) != string(want) {
		fmt.Println("MISMATCH")
		os.Exit(1)
	}
}
