package main

import (
	"fmt"

	"github.com/ozanh/ugo"
	ustrings "github.com/ozanh/ugo/stdlib/strings"
)

func main() {
	for _, name := range []string{"IndexFunc", "LastIndexFunc", "TrimFunc", "Map", "FieldsFunc"} {
		func() {
			defer func() {
				if r := recover(); r != nil {
					fmt.Printf("%-14s PANIC %.90v\n", name, r)
				}
			}()
			var ret ugo.Object
			var err error
			if name == "Map" {
				ret, err = ustrings.Module[name].Call(ugo.BuiltinObjects[ugo.BuiltinChar], ugo.String("abc"))
			} else {
				ret, err = ustrings.Module[name].Call(ugo.String("12a"), ugo.BuiltinObjects[ugo.BuiltinIsChar])
			}
			fmt.Printf("%-14s ret=%v err=%v\n", name, ret, err)
		}()
	}
}
