package main

import (
	"fmt"

	"github.com/ozanh/ugo"
)

func main() {
	for _, src := range []string{`return string([0.0, -0.0])`, `a := 0.0; b := -0.0; return [string(a), string(b)]`, `return [string(-0.0), string(0.0), string(-0.0)]`} {
		for _, no := range []bool{false, true} {
			bc, err := ugo.Compile([]byte(src), ugo.CompilerOptions{NoOptimize: no})
			if err != nil {
				fmt.Println(err)
				continue
			}
			ret, err := ugo.NewVM(bc).Run(nil)
			fmt.Printf("noopt=%-5v %-55q %v %v\n", no, src, ret, err)
		}
	}
}
