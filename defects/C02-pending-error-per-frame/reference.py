pieces=['', 'x', 'throwE1', 'tryIcatch', 'tryfinally', 'tryJfinally', 'boom', 'returnR']
def ex(p,out):
    if p=='': return ('n',None)
    if p=='x': out.append('x'); return ('n',None)
    if p=='throwE1': return ('t','error: E1')
    if p=='tryIcatch': out.append('c'); return ('n',None)
    if p=='tryfinally': out.append('t'); out.append('f'); return ('n',None)
    if p=='tryJfinally': out.append('g'); return ('t','error: J')
    if p=='boom': return ('t','ZeroDivisionError: ')
    if p=='returnR': return ('r','R')
def seq(stmts,out):
    for s in stmts:
        r=s(out)
        if r[0]!='n': return r
    return ('n',None)
def run(a,b,c,form):
    out=[]
    def P(p): return lambda o: ex(p,o)
    def lit(ch): return lambda o: (o.append(ch),('n',None))[1]
    def trycf(T,C,F):
        def f(o):
            r=seq(T,o)
            if r[0]=='t' and C is not None:
                r=seq(C,o)
            fr=seq(F,o)
            return fr if fr[0]!='n' else r
        return f
    if form==0:
        body=[trycf([P(a)],[lit('C'),P(b)],[lit('F'),P(c)])]
        r=seq(body,out)
    elif form==1:
        body=[trycf([P(a)],None,[lit('F'),P(c)]),P(b)]
        r=seq(body,out)
    else:
        r=('n',None)
        for i in range(2):
            def T(o,i=i):
                r1=ex(a,o)
                if r1[0]!='n': return r1
                if i==0: return ('c',None)
                return ex(b,o)
            r=trycf([T],None,[lit('F'),P(c)])(out)
            if r[0]=='c': r=('n',None); continue
            if r[0]!='n': break
    if r[0]=='n': r=('r','end')
    val = r[1] if r[0]=='r' else 'outer:'+r[1]
    return 'ret=["%s", "%s"] err=<nil>'%(val,''.join(out))
n=0
lines=[]
for a in pieces:
    for b in pieces:
        for c in pieces:
            for form in (0,1,2):
                lines.append('%d %s'%(n,run(a,b,c,form))); n+=1
open('/tmp/p10-ref.txt','w').write('\n'.join(lines)+'\n')
