package main

import (
	"fmt"
	"strings"

	"github.com/ozanh/ugo"
)

// generated try/catch/finally programs: inner pieces placed in try, catch and finally bodies
var pieces = []string{
	``,
	`out += "x"`,
	`throw "E1"`,
	`try { throw "I" } catch e { out += "c" }`,
	`try { out += "t" } finally { out += "f" }`,
	`try { throw "J" } finally { out += "g" }`,
	`boom()`,
	`return "R"`,
}

func run(src string) string {
	var res string
	func() {
		defer func() {
			if r := recover(); r != nil {
				res = fmt.Sprintf("GO PANIC %v", r)
			}
		}()
		bc, err := ugo.Compile([]byte(src), ugo.CompilerOptions{})
		if err != nil {
			res = "compile: " + strings.ReplaceAll(err.Error(), "\n", " ")
			return
		}
		vm := ugo.NewVM(bc)
		ret, err := vm.Run(nil)
		e := "<nil>"
		if err != nil {
			e = strings.SplitN(err.Error(), "\n", 2)[0]
		}
		res = fmt.Sprintf("ret=%v err=%s", ret, e)
	}()
	return res
}

func main() {
	n := 0
	for _, a := range pieces {
		for _, b := range pieces {
			for _, c := range pieces {
				for _, form := range []int{0, 1, 2} {
					var body string
					switch form {
					case 0:
						body = "try {\n" + a + "\n} catch e0 {\n out += \"C\"\n" + b + "\n} finally {\n out += \"F\"\n" + c + "\n}"
					case 1:
						body = "try {\n" + a + "\n} finally {\n out += \"F\"\n" + c + "\n}\n" + b
					case 2:
						body = "for i := 0; i < 2; i++ {\ntry {\n" + a + "\nif i == 0 { continue }\n" + b + "\n} finally {\n out += \"F\"\n" + c + "\n}\n}"
					}
					src := "out := \"\"\nboom := func() { z := 0; return 1/z }\nf := func() {\n" + body + "\nreturn \"end\"\n}\nr := undefined\ntry { r = f() } catch ex { r = \"outer:\" + string(ex) }\nreturn [r, out]\n"
					fmt.Printf("%d %s\n", n, run(src))
					n++
				}
			}
		}
	}
}
