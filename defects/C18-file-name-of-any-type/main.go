// Demonstration (not part of any check): a 79-byte bytecode whose file set
// names its source file with a gob-encoded ugo.Array{nil}.  Unrepaired,
// SourceFile.UnmarshalBinary calls String() on the decoded object and the nil
// element is dereferenced: DecodeBytecodeFrom panics.  Repaired: an error.
// (Input found by the round-9 C18 seeding agent.)
package main

import (
	"bytes"
	"encoding/hex"
	"fmt"
	"os"

	"github.com/ozanh/ugo/encoder"
)

func main() {
	data, _ := hex.DecodeString("0075474f0002000302880101180102017cff2f10001a6769746875622e636f6d2f6f7a616e682f75676f2e41727261797f02010105417272617901ff80000110000006ff8003000100010201140100")
	defer func() {
		if r := recover(); r != nil {
			fmt.Println("PANIC:", r)
			os.Exit(1)
		}
	}()
	_, err := encoder.DecodeBytecodeFrom(bytes.NewReader(data), nil)
	fmt.Println("error:", err)
}
