#!/bin/sh
# Builds bin/ugolint from ugolint/*.go, offline, only when sources are newer.
set -e
cd "$(dirname "$0")"
export GOFLAGS=-mod=mod GOPROXY=off GOSUMDB=off GOTOOLCHAIN=local GOWORK=off
unset GOOS GOARCH
need=0
[ -x bin/ugolint ] || need=1
if [ $need = 0 ]; then
  for f in ugolint/*.go ugolint/go.mod; do
    [ "$f" -nt bin/ugolint ] && need=1 && break
  done
fi
if [ $need = 1 ]; then
  mkdir -p bin
  (cd ugolint && go build -o ../bin/ugolint.tmp . ) && mv bin/ugolint.tmp bin/ugolint
fi
